#!/venv/bin/python
"""Reach measurement: which lines of flumine do the simulated runs execute?
usage: tools/reach.py [N per check] [check ids...]    (needs coverage.py, which /venv has; not part of any registered command)
Runs N seeds of each check in a process of its own under coverage.py (threads included), combines the data and
prints, per flumine source file, the statements never executed. Output: evidence/reach.json + a text summary."""
import json, os, subprocess, sys, tempfile, shutil

ROOT = os.path.dirname(os.path.dirname(os.path.abspath(__file__)))
sys.path.insert(0, ROOT)

def child(cid, n, datafile):
    import coverage
    repo = os.environ.get("VERIF_REPO", "/repo")
    cov = coverage.Coverage(data_file=datafile, source=[os.path.join(repo, "flumine")], concurrency=["thread"])
    cov.start()  # before flumine is imported, so that module-level statements count
    from simkit import rt
    rt.bootstrap()
    from simkit import core, driver
    chk = driver.load_check(cid)
    for i in range(n):
        rng = core.rng_for(0, cid, i)
        sc = chk.generate(rng, i, "quick")
        chk.execute(sc)
    cov.stop()
    cov.save()

if __name__ == "__main__":
    if len(sys.argv) > 1 and sys.argv[1] == "_child":
        child(sys.argv[2], int(sys.argv[3]), sys.argv[4])
        sys.exit(0)
    n = int(sys.argv[1]) if len(sys.argv) > 1 else 300
    from simkit import selftest, rt
    ids = sys.argv[2:] or selftest.existing_checks()
    tmp = tempfile.mkdtemp(prefix="verif_reach_")
    try:
        procs = []
        for cid in ids:
            env = dict(os.environ, PYTHONHASHSEED="0", VERIF_NO_WORLD_C="1")
            procs.append((cid, subprocess.Popen([sys.executable, os.path.abspath(__file__), "_child", cid, str(n if cid != "C14" else max(4, n // 40)), os.path.join(tmp, "cov." + cid)], env=env, stdout=subprocess.PIPE, stderr=subprocess.STDOUT, text=True)))
        for cid, p in procs:
            out, _ = p.communicate(timeout=7200)
            if p.returncode != 0:
                print("child %s failed: %s" % (cid, out[-1500:]))
        import coverage
        repo = rt.repo_root()
        cov = coverage.Coverage(data_file=os.path.join(tmp, "combined"), source=[os.path.join(repo, "flumine")])
        cov.combine([os.path.join(tmp, f) for f in os.listdir(tmp) if f.startswith("cov.")], keep=True)
        cov.save()
        data = cov.get_data()
        report = {}
        for f in sorted(data.measured_files()):
            rel = os.path.relpath(f, repo)
            try:
                _, stmts, _, missing, _ = cov.analysis2(f)
            except Exception:
                continue
            report[rel] = {"statements": len(stmts), "missing": missing}
        # files never imported/executed at all
        for dp, dn, fn in os.walk(os.path.join(repo, "flumine")):
            for f in fn:
                if f.endswith(".py"):
                    rel = os.path.relpath(os.path.join(dp, f), repo)
                    if rel not in report:
                        try:
                            _, stmts, _, missing, _ = cov.analysis2(os.path.join(dp, f))
                            report[rel] = {"statements": len(stmts), "missing": missing}
                        except Exception:
                            pass
        tot = sum(r["statements"] for r in report.values())
        miss = sum(len(r["missing"]) for r in report.values())
        json.dump({"seeds_per_check": n, "checks": ids, "statements": tot, "executed": tot - miss, "files": report}, open(os.path.join(ROOT, "evidence", "reach.json"), "w"), indent=0)
        print("flumine statements executed by the simulated runs: %d / %d (%.1f%%)" % (tot - miss, tot, 100.0 * (tot - miss) / max(1, tot)))
        for rel, r in sorted(report.items()):
            if r["missing"]:
                print("%-50s %4d/%4d missing: %s" % (rel, len(r["missing"]), r["statements"], ",".join(map(str, r["missing"][:60])) + ("..." if len(r["missing"]) > 60 else "")))
    finally:
        shutil.rmtree(tmp, ignore_errors=True)
