#!/venv/bin/python
import json, sys
sys.path.insert(0, '/verif')
from simkit.checks.common import sample_view
d = json.load(open(sys.argv[1]))
print(json.dumps(d.get('violation'), default=str)[:1500])
v = sample_view(d['scenario'])
print('cfg', json.dumps(v['cfg']), 'clients', json.dumps(v['clients']))
for s in v['strategies']:
    print('strategy', json.dumps(s))
for k in ('inject', 'middlewares', 'dyadic'):
    if d['scenario'].get(k): print(k, json.dumps(d['scenario'][k]))
for m in v['markets']:
    print(m['id'], m['type'], 'winners', m['winners'], 'bsp', m['bsp'], 'n_updates', m['n_updates'])
    for t in m['timeline']:
        print('  ', json.dumps(t))
