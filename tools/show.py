#!/venv/bin/python
import json, sys
sys.path.insert(0, '/verif')
from simkit.checks.common import sample_view
d = json.load(open(sys.argv[1]))
print(json.dumps(d.get('violation'), default=str))
print(json.dumps(sample_view(d['scenario']), indent=1)[:int(sys.argv[2]) if len(sys.argv) > 2 else 6000])
