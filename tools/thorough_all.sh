#!/bin/bash
# thorough tier of every claimed check (meant for `vp run -- tools/thorough_all.sh [seed]`)
cd "$(dirname "$0")/.."
for c in C12 C11 C13 C03 C10 C15 C02 C18 C20 C14 C07 C06 C05 C04 C09 C08 C01; do
  out=$(VERIF_SEED=${1:-0} timeout 2400 ./check $c --tier thorough 2>&1); rc=$?
  echo "thorough seed=${1:-0} $c exit=$rc $(echo "$out" | grep '^evaluations=')"
  echo "$out" | grep "^VIOLATION\|^  clause\|^  replay\|HARNESS" | head -12
done
