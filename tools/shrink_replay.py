#!/venv/bin/python
"""Shrink an existing replay file in place: tools/shrink_replay.py CHECK FILE [seconds]"""
import json, sys, time, os
sys.path.insert(0, '/verif')
from simkit import rt
rt.bootstrap()
from simkit import driver, core
cid, path = sys.argv[1], sys.argv[2]
budget = float(sys.argv[3]) if len(sys.argv) > 3 else 60
chk = driver.load_check(cid)
d = json.load(open(path))
test = driver._still_fails(chk, d['violation'])
sc = chk.shrink(d['scenario'], test, time.time() + budget)
res = chk.execute(sc)
vv = [x for x in res.violations if core.vkey(x) == core.vkey(d['violation'])]
d['scenario'] = sc
if vv: d['violation'] = vv[0]
d['digest'] = res.digest
json.dump(d, open(path, 'w'), indent=1, sort_keys=True, default=str)
print('shrunk', path)
