#!/venv/bin/python
"""Regenerates /verif/MANIFEST.json from the check modules that exist (kept valid at all times)."""
import json, os, sys, importlib
sys.path.insert(0, '/verif')
os.environ.setdefault('PYTHONHASHSEED', '0')
from simkit import rt
rt.bootstrap(pin_hashseed=False)
ALL = ['C%02d' % i for i in range(1, 21)]
NA = {
 'C16': 'pure function of the blotter content (quantified over inputs only): no schedule, clock, fault or interleaving for a simulator to vary; see DESIGN.md section 4',
 'C17': 'pure functions of a number / an order over a finite grid: nothing for a scheduler or fault injector to vary; decidable by enumeration or proof, which are other techniques (DESIGN.md section 4)',
 'C19': 'format/length are pure functions; uniqueness rests on uuid1 (real clock, outside every seam - the simulator replaces it to make runs replayable); the restart-attribution facet is asserted inside C11 (DESIGN.md section 4)',
}
checks, na = [], []
for cid in ALL:
    path = '/verif/simkit/checks/%s.py' % cid
    if cid in NA:
        na.append({'property_id': cid, 'reason': NA[cid]}); continue
    if not os.path.exists(path):
        na.append({'property_id': cid, 'reason': 'check not built yet (work in progress, DESIGN.md section 9)'}); continue
    m = importlib.import_module('simkit.checks.' + cid)
    checks.append({
        'property_id': cid,
        'quick_cmd': 'cd /verif && ./check %s --tier quick' % cid,
        'thorough_cmd': 'cd /verif && ./check %s --tier thorough' % cid,
        'evidence_file': '/verif/evidence/%s.json' % cid,
        'replay_cmd_template': 'cd /verif && ./check %s --replay {path}' % cid,
        'engine': 'simkit',
        'level_claimed': {'category': m.LEVEL, 'text': m.LEVEL_TEXT if hasattr(m, 'LEVEL_TEXT') else m.RULE, 'design_ref': 'DESIGN.md section 3, %s' % cid},
        'level_note': '; '.join(m.ASSUMPTIONS),
        'technique': m.TECHNIQUE,
    })
man = {
 'version': 1,
 'setup_cmd': 'cd /verif && ./check selftest setup',
 'hooks': {'guard': 'FLUMINE_VERIF', 'enable': 'no source hooks: every seam (clock, files, uuid, thread pool, queue, HTTP session, streams) is reached by attribute replacement inside the checker process; VERIF_REPO selects the tree under test (default /repo)', 'baseline_off_cmd': 'cd /repo && /venv/bin/python -m pytest -ra -q -p no:cacheprovider --timeout=900 --continue-on-collection-errors', 'source_commits': [], 'add_only': True},
 'engines': [{'name': 'simkit', 'path': '/verif/simkit', 'serves_properties': [c['property_id'] for c in checks], 'kind_free_text': 'deterministic simulation with fault injection: seeded scenario generator, real flumine run loop under simulated clock/files/ids (world A) and simulated scheduler/network/exchange (world B), invariant monitors, ddmin shrinking, replay files'}],
 'checks': checks,
 'not_applicable': na,
 'notes': 'fix: commits in /repo are listed in /verif/known_findings.json (fixed) together with recorded known findings',
}
json.dump(man, open('/verif/MANIFEST.json', 'w'), indent=1)
print('checks:', [c['property_id'] for c in checks])
