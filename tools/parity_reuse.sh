#!/bin/bash
# Behaviour parity of the F18 repair for re-used (completed) trades: C10 with re-use generated, on the current tree and on
# a scratch copy carrying the ORIGINAL flumine/order/trade.py; the sets of violation sites must be identical (the histories
# are outside C10's quantifier, the comparison only shows that the repair does not change them).
cd "$(dirname "$0")/.."
tmp=$(mktemp -d /tmp/verif_parity_XXXX); trap 'rm -rf $tmp' EXIT
cp -r /repo/flumine $tmp/flumine
git -C /repo show fa1261e:flumine/order/trade.py > $tmp/flumine/order/trade.py
a=$(VERIF_C10_REUSE_DONE=0.6 VERIF_EVIDENCE_DIR=$tmp/ev1 VERIF_NO_REPLAY_VERIFY=1 ./check C10 --no-shrink --runs 6000 2>&1 | grep '^  clause=' | sed 's/ details=.*//' | sort -u)
b=$(VERIF_C10_REUSE_DONE=0.6 VERIF_REPO=$tmp PYTHONDONTWRITEBYTECODE=1 VERIF_EVIDENCE_DIR=$tmp/ev2 VERIF_NO_REPLAY_VERIFY=1 ./check C10 --no-shrink --runs 6000 2>&1 | grep '^  clause=' | sed 's/ details=.*//' | grep -v 'site=trade-live-but-orders-complete' | sort -u)  # that site is the F18 defect itself
echo "current tree:"; echo "$a"; echo "original trade.py:"; echo "$b"
[ "$a" == "$b" ] && echo "PARITY: identical violation sites" || echo "PARITY: DIFFERENT"
