#!/bin/bash
# usage: tools/soak_seeds.sh "<seeds>" [tier]   - runs every claimed check for each seed, prints a summary line per run
cd "$(dirname "$0")/.."
tier=${2:-quick}
for s in $1; do
  for c in C01 C02 C03 C04 C05 C06 C07 C08 C09 C10 C11 C12 C13 C14 C15 C18 C20; do
    out=$(VERIF_SEED=$s ./check $c --tier $tier 2>&1)
    rc=$?
    echo "seed=$s $c exit=$rc $(echo "$out" | grep '^evaluations' )"
    if [ $rc -ne 0 ]; then echo "$out" | grep -A1 '^VIOLATION\|HARNESS' | cut -c1-600; fi
  done
done
