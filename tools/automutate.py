#!/venv/bin/python
"""Automatic mutation sampling (a broader sensitivity measure than the hand-written catalogue).

usage: tools/automutate.py gen N SEED            -> mutants/auto/<seed>/mNNN.json (N sampled single-node mutants)
       tools/automutate.py suite SEED [workers]  -> runs the pinned suite on every mutant (scratch copies), records survivors
       tools/automutate.py check SEED [workers]  -> runs the checks mapped to the mutant's file on every survivor
       tools/automutate.py report SEED

Mutation operators (one AST node per mutant): comparison swap (< <= > >= == != is/is not, in/not in), and/or swap,
negated if/while test, + <-> -, * <-> /, numeric constant tweak, True <-> False, deletion of an expression statement
(call) or of an augmented assignment, `return x` of a non-constant -> `return None` is NOT used (too often equivalent to a
crash). Only function bodies of the files named in the properties' anchors are mutated; logging calls, docstrings,
`__repr__`/info/`__str__` and type-annotation-only code are skipped.
Nothing here touches /repo: every mutant lives in its own scratch copy under /tmp and is removed afterwards."""
import ast, json, os, random, shutil, subprocess, sys, tempfile, time
from concurrent.futures import ThreadPoolExecutor

ROOT = os.path.dirname(os.path.dirname(os.path.abspath(__file__)))
REPO = "/repo"
FILES = {
    "flumine/simulation/simulatedorder.py": ["C04", "C05", "C06", "C07", "C08", "C09", "C03"],
    "flumine/markets/middleware.py": ["C06", "C09", "C04", "C13", "C05"],
    "flumine/execution/simulatedexecution.py": ["C12", "C03", "C04", "C18", "C07"],
    "flumine/execution/betfairexecution.py": ["C12", "C11", "C03", "C18"],
    "flumine/execution/transaction.py": ["C02", "C01", "C10"],
    "flumine/controls/tradingcontrols.py": ["C01", "C02", "C10"],
    "flumine/controls/clientcontrols.py": ["C18", "C02"],
    "flumine/controls/__init__.py": ["C02", "C03"],
    "flumine/order/trade.py": ["C10", "C15", "C11"],
    "flumine/strategy/runnercontext.py": ["C10"],
    "flumine/strategy/strategy.py": ["C10", "C20", "C13"],
    "flumine/order/process.py": ["C11", "C15", "C03"],
    "flumine/order/order.py": ["C03", "C02", "C04", "C11"],
    "flumine/order/orderpackage.py": ["C12", "C02", "C07"],
    "flumine/markets/blotter.py": ["C15", "C01", "C08", "C20"],
    "flumine/markets/markets.py": ["C20", "C15", "C11"],
    "flumine/markets/market.py": ["C20", "C02", "C08"],
    "flumine/baseflumine.py": ["C20", "C13", "C11"],
    "flumine/simulation/simulation.py": ["C14", "C07", "C13", "C20", "C10", "C03"],
    "flumine/streams/historicalstream.py": ["C14"],
    "flumine/simulation/utils.py": ["C14"],
    "flumine/utils.py": ["C01", "C05", "C13", "C14"],
}
SKIP_FUNCS = {"__repr__", "__str__", "info", "__init__"}
CMP = {ast.Lt: ast.LtE, ast.LtE: ast.Lt, ast.Gt: ast.GtE, ast.GtE: ast.Gt, ast.Eq: ast.NotEq, ast.NotEq: ast.Eq, ast.Is: ast.IsNot, ast.IsNot: ast.Is, ast.In: ast.NotIn, ast.NotIn: ast.In}


def is_logging(node):
    try:
        src = ast.unparse(node)
    except Exception:
        return False
    return src.startswith("logger.") or "logger.isEnabledFor" in src


class Collector(ast.NodeVisitor):
    def __init__(self):
        self.sites = []  # (kind, node)
        self.func = []

    def visit_FunctionDef(self, node):
        if node.name in SKIP_FUNCS and node.name != "__init__":
            return
        self.func.append(node.name)
        for st in node.body:
            self.visit(st)
        self.func.pop()

    visit_AsyncFunctionDef = visit_FunctionDef

    def generic_visit(self, node):
        if not self.func:
            return super().generic_visit(node)
        if is_logging(node):
            return
        if isinstance(node, ast.If) and "isEnabledFor" in ast.unparse(node.test):
            return
        if isinstance(node, ast.Compare) and len(node.ops) == 1 and type(node.ops[0]) in CMP:
            self.sites.append(("cmp", node))
        elif isinstance(node, ast.BoolOp):
            self.sites.append(("bool", node))
        elif isinstance(node, (ast.If, ast.While)):
            self.sites.append(("neg", node))
        elif isinstance(node, ast.BinOp) and isinstance(node.op, (ast.Add, ast.Sub, ast.Mult, ast.Div)):
            if not (isinstance(node.left, ast.Constant) and isinstance(node.left.value, str)) and not isinstance(node.op, ast.Mod):
                self.sites.append(("arith", node))
        elif isinstance(node, ast.Constant) and isinstance(node.value, bool):
            self.sites.append(("bool_const", node))
        elif isinstance(node, ast.Constant) and isinstance(node.value, (int, float)) and not isinstance(node.value, bool):
            self.sites.append(("num", node))
        elif isinstance(node, ast.Expr) and isinstance(node.value, ast.Call):
            self.sites.append(("del_call", node))
        elif isinstance(node, ast.AugAssign):
            self.sites.append(("del_aug", node))
        super().generic_visit(node)


def mutate_source(src, kind, target_idx):
    """Re-parse, find the target_idx-th site of the collector, apply the operator, return (new source, description)."""
    tree = ast.parse(src)
    col = Collector()
    col.visit(tree)
    k, node = col.sites[target_idx]
    assert k == kind
    before = ast.unparse(node)[:120]
    line = node.lineno
    if kind == "cmp":
        node.ops[0] = CMP[type(node.ops[0])]()
    elif kind == "bool":
        node.op = ast.Or() if isinstance(node.op, ast.And) else ast.And()
    elif kind == "neg":
        node.test = ast.UnaryOp(op=ast.Not(), operand=node.test)
    elif kind == "arith":
        node.op = {ast.Add: ast.Sub, ast.Sub: ast.Add, ast.Mult: ast.Div, ast.Div: ast.Mult}[type(node.op)]()
    elif kind == "bool_const":
        node.value = not node.value
    elif kind == "num":
        node.value = node.value + 1 if node.value != 0 else 1
    elif kind in ("del_call", "del_aug"):
        parent = find_parent(tree, node)
        for field in ("body", "orelse", "finalbody"):
            lst = getattr(parent, field, None)
            if isinstance(lst, list) and node in lst:
                lst[lst.index(node)] = ast.Pass()
    ast.fix_missing_locations(tree)
    after = ast.unparse(node)[:120] if kind not in ("del_call", "del_aug") else "pass"
    return ast.unparse(tree) + "\n", "%s line %d: %s  ->  %s" % (kind, line, before, after)


def find_parent(tree, target):
    for n in ast.walk(tree):
        for c in ast.iter_child_nodes(n):
            if c is target:
                return n
    raise KeyError


def gen(n, seed):
    rng = random.Random(seed)
    out = os.path.join(ROOT, "mutants", "auto", str(seed))
    os.makedirs(out, exist_ok=True)
    pool = []
    for f in FILES:
        src = open(os.path.join(REPO, f)).read()
        col = Collector()
        col.visit(ast.parse(src))
        for i, (k, node) in enumerate(col.sites):
            pool.append((f, k, i))
    rng.shuffle(pool)
    # balance across files: at most ceil(2n/len(FILES)) per file
    cap = max(2, (2 * n) // len(FILES) + 1)
    per = {}
    chosen = []
    for f, k, i in pool:
        if per.get(f, 0) >= cap:
            continue
        per[f] = per.get(f, 0) + 1
        chosen.append((f, k, i))
        if len(chosen) >= n:
            break
    for j, (f, k, i) in enumerate(chosen):
        src = open(os.path.join(REPO, f)).read()
        try:
            new, desc = mutate_source(src, k, i)
        except Exception as e:
            continue
        json.dump({"id": "a%03d" % j, "file": f, "kind": k, "site": i, "desc": desc, "checks": FILES[f]}, open(os.path.join(out, "a%03d.json" % j), "w"), indent=1)
    print("generated", len(os.listdir(out)), "mutants in", out, "(pool of %d sites)" % len(pool))


def scratch(m, whole_repo):
    tmp = tempfile.mkdtemp(prefix="verif_auto_")
    if whole_repo:
        shutil.rmtree(tmp)
        shutil.copytree(REPO, tmp, ignore=shutil.ignore_patterns("__pycache__", ".git"))
    else:
        shutil.copytree(os.path.join(REPO, "flumine"), os.path.join(tmp, "flumine"), ignore=shutil.ignore_patterns("__pycache__"))
    p = os.path.join(tmp, m["file"])
    new, _ = mutate_source(open(os.path.join(REPO, m["file"])).read(), m["kind"], m["site"])
    open(p, "w").write(new)
    return tmp


def load(seed):
    d = os.path.join(ROOT, "mutants", "auto", str(seed))
    return d, [json.load(open(os.path.join(d, f))) for f in sorted(os.listdir(d)) if f.startswith("a") and f.endswith(".json")]


def suite(seed, workers):
    d, ms = load(seed)

    def one(m):
        if "survives_suite" in m:
            return m
        tmp = scratch(m, True)
        try:
            r = subprocess.run([os.path.join(ROOT, "tools", "suite.py"), tmp], stdout=subprocess.PIPE, stderr=subprocess.STDOUT, text=True, timeout=1800)
            m["survives_suite"] = r.returncode == 0
            m["suite"] = " | ".join(r.stdout.strip().splitlines()[:3])[:300]
        except Exception as e:
            m["survives_suite"] = None
            m["suite"] = "error %s" % e
        finally:
            shutil.rmtree(tmp, ignore_errors=True)
        json.dump(m, open(os.path.join(d, m["id"] + ".json"), "w"), indent=1)
        print(m["id"], m["file"], "SURVIVES" if m["survives_suite"] else "killed", flush=True)
        return m

    with ThreadPoolExecutor(max_workers=workers) as ex:
        list(ex.map(one, ms))


def check(seed, workers):
    d, ms = load(seed)
    ms = [m for m in ms if m.get("survives_suite")]

    def one(m):
        if "results" in m:
            return m
        tmp = scratch(m, False)
        res = {}
        try:
            for c in m["checks"]:
                env = dict(os.environ, VERIF_REPO=tmp, PYTHONDONTWRITEBYTECODE="1", VERIF_EVIDENCE_DIR=os.path.join(tmp, "ev"), VERIF_NO_REPLAY_VERIFY="1")
                t0 = time.time()
                p = subprocess.run([os.path.join(ROOT, "check"), c, "--runs", "4000", "--wall", "60", "--workers", "4", "--no-shrink"], env=env, stdout=subprocess.PIPE, stderr=subprocess.STDOUT, text=True, timeout=900)
                first = [l.strip()[:160] for l in p.stdout.splitlines() if l.startswith("  clause=")][:1]
                res[c] = {"exit": p.returncode, "first": first, "wall": round(time.time() - t0, 1)}
                if p.returncode == 1:
                    break
        finally:
            shutil.rmtree(tmp, ignore_errors=True)
        m["results"] = res
        m["detected"] = any(r["exit"] == 1 for r in res.values())
        m["harness_error"] = any(r["exit"] == 2 for r in res.values()) and not m["detected"]
        json.dump(m, open(os.path.join(d, m["id"] + ".json"), "w"), indent=1)
        print(m["id"], m["file"], m["desc"][:90], "->", "DETECTED " + str([c for c, r in res.items() if r["exit"] == 1]) if m["detected"] else ("HARNESS-ERROR" if m["harness_error"] else "missed"), flush=True)
        return m

    with ThreadPoolExecutor(max_workers=workers) as ex:
        list(ex.map(one, ms))


def paths(seed, workers):
    """Oracle robustness: run the mapped checks (small budget) on EVERY mutant, also those the suite kills, and list the
    runs that end as harness errors (exit 2) - a violation path of an oracle that crashes shows up here."""
    d, ms = load(seed)

    def one(m):
        if "paths" in m:
            return m
        tmp = scratch(m, False)
        res = {}
        try:
            for c in m["checks"][:4]:
                env = dict(os.environ, VERIF_REPO=tmp, PYTHONDONTWRITEBYTECODE="1", VERIF_EVIDENCE_DIR=os.path.join(tmp, "ev"), VERIF_NO_REPLAY_VERIFY="1")
                p = subprocess.run([os.path.join(ROOT, "check"), c, "--runs", "1500", "--wall", "30", "--workers", "4", "--no-shrink"], env=env, stdout=subprocess.PIPE, stderr=subprocess.STDOUT, text=True, timeout=600)
                res[c] = {"exit": p.returncode, "harness": [l[:300] for l in p.stdout.splitlines() if l.startswith("HARNESS-ERROR")][:2]}
        finally:
            shutil.rmtree(tmp, ignore_errors=True)
        m["paths"] = res
        json.dump(m, open(os.path.join(d, m["id"] + ".json"), "w"), indent=1)
        bad = {c: r for c, r in res.items() if r["exit"] == 2}
        print(m["id"], m["file"], {c: r["exit"] for c, r in res.items()}, ("HARNESS " + json.dumps(bad)[:400]) if bad else "", flush=True)
        return m

    with ThreadPoolExecutor(max_workers=workers) as ex:
        list(ex.map(one, ms))


def report(seed):
    d, ms = load(seed)
    surv = [m for m in ms if m.get("survives_suite")]
    det = [m for m in surv if m.get("detected")]
    print("mutants %d, killed by the pinned suite %d, survivors %d, of which detected by the mapped checks %d, harness errors %d" % (len(ms), sum(1 for m in ms if m.get("survives_suite") is False), len(surv), len(det), sum(1 for m in surv if m.get("harness_error"))))
    for m in surv:
        if "results" in m and not m.get("detected"):
            print("  MISSED %s %s :: %s" % (m["id"], m["file"], m["desc"]))
    json.dump({"seed": seed, "mutants": len(ms), "survivors": len(surv), "detected": len(det), "missed": [{"id": m["id"], "file": m["file"], "desc": m["desc"], "triage": m.get("triage")} for m in surv if "results" in m and not m.get("detected")]}, open(os.path.join(ROOT, "evidence", "automutate_%s.json" % seed), "w"), indent=1)


if __name__ == "__main__":
    cmd = sys.argv[1]
    if cmd == "gen":
        gen(int(sys.argv[2]), int(sys.argv[3]))
    elif cmd == "suite":
        suite(int(sys.argv[2]), int(sys.argv[3]) if len(sys.argv) > 3 else 8)
    elif cmd == "check":
        check(int(sys.argv[2]), int(sys.argv[3]) if len(sys.argv) > 3 else 4)
    elif cmd == "paths":
        paths(int(sys.argv[2]), int(sys.argv[3]) if len(sys.argv) > 3 else 3)
    elif cmd == "report":
        report(int(sys.argv[2]))
