#!/usr/bin/env python3
"""Regression over the seeded changes: every seeds/<id>/patch.diff is applied to a scratch copy of /repo/flumine (VERIF_REPO)
and the check recorded in its meta.json (detected_by[0]) is run in the quick tier without shrinking.
usage: tools/seeded_regress.py [parallel=2] [seed ids...]   -> seeded/regression_<commit>.log (one line per seed)"""
import json, os, shutil, subprocess, sys, tempfile
from concurrent.futures import ThreadPoolExecutor

ROOT = os.path.dirname(os.path.dirname(os.path.abspath(__file__)))


def one(sid):
    d = os.path.join(ROOT, "seeded", sid)
    meta = json.load(open(os.path.join(d, "meta.json")))
    checks = meta.get("detected_by") or []
    if not checks:
        return "%s skipped (recorded as not detected / unreachable)" % sid
    scratch = tempfile.mkdtemp(prefix="verif_regr_")
    try:
        shutil.copytree("/repo/flumine", scratch + "/flumine", ignore=shutil.ignore_patterns("__pycache__"))
        p = subprocess.run(["patch", "-p1", "-s", "-d", scratch, "-i", os.path.join(d, "patch.diff")], capture_output=True, text=True)
        if p.returncode != 0:
            return "%s patch FAILED: %s" % (sid, (p.stdout + p.stderr)[-200:].replace("\n", " "))
        env = dict(os.environ, VERIF_REPO=scratch, PYTHONDONTWRITEBYTECODE="1", VERIF_EVIDENCE_DIR=scratch + "/ev", VERIF_NO_REPLAY_VERIFY="1", VERIF_REPLAY_DIR=scratch + "/replays")
        r = subprocess.run([os.path.join(ROOT, "check"), checks[0], "--tier", "quick", "--no-shrink"], env=env, capture_output=True, text=True, timeout=900)
        first = next((l.strip() for l in r.stdout.splitlines() if l.strip().startswith("clause=")), "")
        import re

        idx = [int(m.group(1)) for m in re.finditer(r"^VIOLATION .*-(\d+)\.json", r.stdout, re.M)]
        ev = re.search(r"^evaluations=(\d+)", r.stdout, re.M)
        margin = "first_index=%s of %s" % (min(idx) if idx else "-", ev.group(1) if ev else "?")
        return "%s check=%s exit=%d %s %s" % (sid, checks[0], r.returncode, margin, first[:100])
    finally:
        shutil.rmtree(scratch, ignore_errors=True)


if __name__ == "__main__":
    par = int(sys.argv[1]) if len(sys.argv) > 1 else 2
    ids = sys.argv[2:] or sorted(x for x in os.listdir(os.path.join(ROOT, "seeded")) if os.path.isfile(os.path.join(ROOT, "seeded", x, "patch.diff")))
    commit = subprocess.run(["git", "-C", ROOT, "rev-parse", "--short", "HEAD"], capture_output=True, text=True).stdout.strip()
    out = os.path.join(ROOT, "seeded", "regression_%s.log" % commit)
    with ThreadPoolExecutor(par) as ex, open(out, "w") as f:
        for line in ex.map(one, ids):
            print(line, flush=True)
            f.write(line + "\n")
