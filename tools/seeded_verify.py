#!/usr/bin/env python3
"""Confirm a sub-agent's seeded change and run our checks against it.
usage: seeded_verify.py <seed-id> <worktree> <property> [extra checks...]
 1. the worktree (change applied) must keep the pinned suite green
 2. its demo must fail on the worktree and pass on an unpatched copy
 3. apply the patch to /repo, run the property's quick check (+extras), undo
 writes /verif/seeded/<seed-id>/{patch.diff,demo.py,README.md,meta.json}"""
import json, os, shutil, subprocess, sys, tempfile, time
args = [a for a in sys.argv[1:] if a != '--copy']
COPY = '--copy' in sys.argv  # run the checks against a patched scratch copy (VERIF_REPO) instead of patching /repo: safe while a vp run uses /repo
sid, wt, prop = args[0], args[1], args[2]
extra = args[3:]
dst = '/verif/seeded/%s' % sid
os.makedirs(dst, exist_ok=True)
for f in ('patch.diff', 'demo.py', 'README.md'):
    if os.path.exists(os.path.join(wt, 'seeded', f)):
        shutil.copy(os.path.join(wt, 'seeded', f), os.path.join(dst, f))
meta = {'property': prop, 'seed_id': sid, 'ran': []}
def run(cmd, **kw):
    p = subprocess.run(cmd, shell=True, stdout=subprocess.PIPE, stderr=subprocess.STDOUT, text=True, **kw)
    return p.returncode, p.stdout
# 1 suite on the patched worktree
rc, out = run('/verif/tools/suite.py %s' % wt)
meta['suite_with_change'] = out.strip().splitlines()[0] if out.strip() else ''
meta['suite_green'] = rc == 0
meta['ran'].append('/verif/tools/suite.py %s -> exit %d' % (wt, rc))
# 2 demo on patched and on clean copy
rc1, out1 = run('cd %s && PYTHONPATH=%s timeout 300 /venv/bin/python seeded/demo.py' % (wt, wt))
tmp = tempfile.mkdtemp(prefix='verif_seed_')
try:
    shutil.rmtree(tmp)
    shutil.copytree('/repo', tmp, ignore=shutil.ignore_patterns('.git', '__pycache__'))
    os.makedirs(tmp + '/seeded', exist_ok=True)
    shutil.copy(os.path.join(dst, 'demo.py'), tmp + '/seeded/demo.py')
    rc0, out0 = run('cd %s && PYTHONPATH=%s timeout 300 /venv/bin/python seeded/demo.py' % (tmp, tmp))
finally:
    shutil.rmtree(tmp, ignore_errors=True)
meta['demo_exit_with_change'] = rc1
meta['demo_exit_without_change'] = rc0
meta['demo_confirms'] = (rc1 != 0 and rc0 == 0)
meta['ran'].append('seeded/demo.py on patched worktree -> exit %d; on unpatched copy of /repo -> exit %d' % (rc1, rc0))
# 3 our checks against the change (applied to /repo, undone straight afterwards)
rc, out = run('git -C /repo apply --check %s/patch.diff' % dst)
meta['patch_applies_to_repo'] = rc == 0
results = {}
if rc == 0:
    scratch = None
    try:
        if COPY:
            scratch = tempfile.mkdtemp(prefix='verif_seedrepo_')
            shutil.copytree('/repo/flumine', scratch + '/flumine', ignore=shutil.ignore_patterns('__pycache__'))
            rcp, outp = run('cd %s && patch -p1 -s < %s/patch.diff' % (scratch, dst))
            assert rcp == 0, outp
            envp = 'VERIF_REPO=%s PYTHONDONTWRITEBYTECODE=1 ' % scratch
        else:
            run('git -C /repo apply %s/patch.diff' % dst)
            envp = ''
        for c in [prop] + extra:
            t0 = time.time()
            rcc, outc = run('cd /verif && %sVERIF_EVIDENCE_DIR=/tmp/verif_seed_ev_%s timeout 600 ./check %s --tier quick' % (envp, sid, c))
            lines = [l for l in outc.splitlines() if l.startswith('VIOLATION') or l.startswith('  clause=')]
            results[c] = {'exit': rcc, 'detected': rcc == 1, 'first': [l[:400] for l in lines[:4]], 'wall_s': round(time.time() - t0, 1)}
            meta['ran'].append(('patched scratch copy (VERIF_REPO); ' if COPY else 'git -C /repo apply patch.diff; ') + './check %s --tier quick -> exit %d' % (c, rcc))
    finally:
        if COPY:
            shutil.rmtree(scratch, ignore_errors=True)
        else:
            run('git -C /repo checkout -- .')
        shutil.rmtree('/tmp/verif_seed_ev_%s' % sid, ignore_errors=True)
meta['checks'] = results
meta['detected_by'] = [c for c, r in results.items() if r['detected']]
json.dump(meta, open(os.path.join(dst, 'meta.json'), 'w'), indent=1)
print(json.dumps(meta, indent=1)[:3000])
