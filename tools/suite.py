#!/usr/bin/env python3
"""Run the pinned baseline suite on a tree (default /repo) and compare with BASELINE stable_pass."""
import json, subprocess, sys, tempfile, os, xml.etree.ElementTree as ET
root = sys.argv[1] if len(sys.argv) > 1 else '/repo'
base = json.load(open('/root/.vp/BASELINE.json'))
want = set(base['stable_pass'])
f = tempfile.mktemp(suffix='.xml')
p = subprocess.run(['/venv/bin/python', '-m', 'pytest', '-q', '-p', 'no:cacheprovider', '--timeout=900', '--continue-on-collection-errors', '--junitxml=' + f], cwd=root, stdout=subprocess.PIPE, stderr=subprocess.STDOUT, text=True, env=dict(os.environ, PYTHONPATH=root))
got = set()
for tc in ET.parse(f).getroot().iter('testcase'):
    ok = not any(ch.tag in ('failure', 'error', 'skipped') for ch in tc)
    if ok:
        got.add('%s::%s' % (tc.get('classname').rsplit('.', 1)[0] + '.' + tc.get('classname').rsplit('.', 1)[1], tc.get('name')))
os.remove(f)
missing = sorted(want - got)
print('stable_pass=%d passed_now=%d missing=%d' % (len(want), len(got), len(missing)))
for m in missing[:20]:
    print('  MISSING', m)
sys.exit(1 if missing else 0)
