#!/usr/bin/env python3
"""Apply a catalogue mutant to a scratch copy of /repo and run the pinned suite: does it survive?"""
import json, os, shutil, subprocess, sys, tempfile
cat = {m['id']: m for m in json.load(open('/verif/mutants/catalogue.json'))}
m = cat[sys.argv[1]]
tmp = tempfile.mkdtemp(prefix='verif_ms_')
try:
    shutil.rmtree(tmp)
    shutil.copytree('/repo', tmp, ignore=shutil.ignore_patterns('__pycache__', '.git'))
    p = os.path.join(tmp, m['file']); s = open(p).read(); assert s.count(m['old']) == 1, s.count(m['old'])
    open(p, 'w').write(s.replace(m['old'], m['new']))
    r = subprocess.run(['/verif/tools/suite.py', tmp], stdout=subprocess.PIPE, text=True)
    print(m['id'], 'SURVIVES' if r.returncode == 0 else 'KILLED', ' | '.join(r.stdout.strip().splitlines()[:3]))
finally:
    shutil.rmtree(tmp, ignore_errors=True)
