#!/bin/bash
# deep self-tests + thorough tier (meant for `vp run -- tools/deep.sh`): nothing here writes to /repo
cd "$(dirname "$0")/.."
echo "== determinism 150 seeds"; timeout 7200 ./check selftest determinism 150 2>&1 | tail -20
echo "== pool determinism"; timeout 7200 ./check selftest pool 1500 C01 C02 C03 C04 C05 C06 C07 C08 C09 C10 C11 C12 C13 C15 C18 C20 2>&1 | grep pool-determinism
timeout 3000 ./check selftest pool 40 C14 2>&1 | grep pool-determinism
echo "== sensitivity"; timeout 14400 ./check selftest sensitivity 2>&1 | tail -50
echo "== thorough"
for c in C01 C02 C03 C04 C05 C06 C07 C08 C09 C10 C11 C12 C13 C14 C15 C18 C20; do
  out=$(VERIF_SEED=${VERIF_SEED:-0} timeout 2400 ./check $c --tier thorough 2>&1); rc=$?
  echo "thorough $c exit=$rc $(echo "$out" | grep '^evaluations=')"
  echo "$out" | grep "^VIOLATION\|^  clause\|HARNESS" | head -8
done
