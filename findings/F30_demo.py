#!/venv/bin/python
"""F30 (C13): the same recorded file simulated for two strategies with different listener arguments.
flumine builds one stream per (file, listener arguments); streams are replayed one after the other, the market object
(closed, but kept) is re-opened by the second replay with the first replay's unmatched orders still EXECUTABLE, and the
simulated matching engine fills them again. Strategy A's result therefore depends on whether B runs beside it.
Plain flumine API only (no /verif machinery):  PYTHONPATH=/repo /venv/bin/python findings/F30_demo.py"""
import json, os, sys, tempfile, logging
from flumine import FlumineSimulation, BaseStrategy, clients
from flumine.order.trade import Trade
from flumine.order.ordertype import LimitOrder

T0 = 1700000000000


def md(status, inplay=False, winner=None):
    return {"bspMarket": False, "turnInPlayEnabled": True, "persistenceEnabled": True, "marketBaseRate": 5.0, "eventId": "30000001", "eventTypeId": "7", "numberOfWinners": 1, "bettingType": "ODDS", "marketType": "WIN", "marketTime": "2023-11-14T23:00:00.000Z", "suspendTime": "2023-11-14T23:00:00.000Z", "bspReconciled": False, "complete": True, "inPlay": inplay, "crossMatching": False, "runnersVoidable": False, "numberOfActiveRunners": 2, "betDelay": 0, "status": status, "runners": [{"status": ("WINNER" if winner == 101 else "LOSER") if winner else "ACTIVE", "sortPriority": 1, "id": 101}, {"status": ("WINNER" if winner == 102 else "LOSER") if winner else "ACTIVE", "sortPriority": 2, "id": 102}], "regulators": ["MR_INT"], "countryCode": "GB", "discountAllowed": True, "timezone": "Europe/London", "openDate": "2023-11-14T23:00:00.000Z", "version": 1, "name": "demo", "eventName": "demo"}


LINES = [
    {"op": "mcm", "clk": "1", "pt": T0, "mc": [{"id": "1.200000001", "marketDefinition": md("OPEN"), "rc": [{"id": 102, "atb": [[2.5, 10]], "atl": [[2.7, 10]]}, {"id": 101, "atb": [[1.5, 10]], "atl": [[1.6, 10]]}]}]},
    {"op": "mcm", "clk": "2", "pt": T0 + 1000, "mc": [{"id": "1.200000001", "rc": [{"id": 102, "ltp": 2.6}]}]},
    {"op": "mcm", "clk": "3", "pt": T0 + 2000, "mc": [{"id": "1.200000001", "rc": [{"id": 102, "trd": [[2.6, 4.0]], "tv": 4.0}]}]},
    {"op": "mcm", "clk": "4", "pt": T0 + 3000, "mc": [{"id": "1.200000001", "marketDefinition": md("CLOSED", winner=101)}]},
]


class A(BaseStrategy):
    def check_market_book(self, market, market_book):
        return market_book.status == "OPEN"

    def process_market_book(self, market, market_book):
        if market_book.publish_time_epoch == T0 + 1000 and not getattr(self, "done", False):
            self.done = True
            trade = Trade(market.market_id, 102, 0, self)
            self.order = trade.create_order("LAY", LimitOrder(2.6, 5.0))
            market.place_order(self.order)


class B(BaseStrategy):
    pass


def run(with_b):
    d = tempfile.mkdtemp()
    path = os.path.join(d, "1.200000001")
    with open(path, "w") as f:
        for l in LINES:
            f.write(json.dumps(l) + "\n")
    fw = FlumineSimulation(clients.SimulatedClient())
    a = A(market_filter={"markets": [path]}, max_order_exposure=1000, max_selection_exposure=1000)
    fw.add_strategy(a)
    if with_b:
        fw.add_strategy(B(market_filter={"markets": [path], "listener_kwargs": {"inplay": False}}))
    fw.run()
    o = a.order
    return o.size_matched, o.status.name, [list(m) for m in o.simulated.matched]


if __name__ == "__main__":
    logging.disable(logging.CRITICAL)
    alone = run(False)
    together = run(True)
    print("A alone        :", alone)
    print("A alongside B  :", together)
    if alone != together:
        print("C13 violated: A's fills depend on a strategy that places nothing")
        sys.exit(1)
    print("identical")
