"""Generates agent scripts (actions attached to abstract updates) with knowledge of the book."""
from .marketgen import TICKS, r2

DEFAULT_MIX = dict(
    p_act=0.35,  # probability an update carries actions for a strategy
    w_place=5,
    w_cancel=2,
    w_update=1,
    w_replace=2,
    w_txn=0.5,
    p_oacts=0.1,  # actions issued from process_orders instead of process_market_book
    p_fok=0.15,
    p_sp=0.1,  # LOC / MOC orders
    p_force=0.0,
    p_mv=0.1,  # placements carrying a market version
    p_ctx=0.05,  # trade used as context manager
    p_same_trade=0.1,
    p_partial_cancel=0.4,
    max_size=8.0,
    persistence=("LAPSE", "LAPSE", "PERSIST", "MARKET_ON_CLOSE"),
    p_invalid=0.0,
    dyadic=False,
    prs=(0.0,),
    rs=(0.0,),
    sides=("BACK", "LAY"),
    where=("through", "at", "behind", "behind", "far"),
)


DYADIC_TICKS = [p for p in TICKS if (p * 8) == int(p * 8) and p <= 12]


def ladder_for(market, dyadic=False):
    if dyadic and not market.get("line"):
        return DYADIC_TICKS
    if market.get("line"):
        lo, hi, step = market["line"]
        n = int(round((hi - lo) / step))
        return [lo + i * step for i in range(n + 1)]
    return TICKS


def pick_price(rng, ladder, book, side, where):
    """Price for a new order relative to the book the agent sees."""
    atb = book["atb"]
    atl = book["atl"]
    bb = atb[0][0] if atb else None
    bl = atl[0][0] if atl else None

    def idx(p):
        try:
            return ladder.index(p)
        except ValueError:
            return min(range(len(ladder)), key=lambda i: abs(ladder[i] - p))

    n = len(ladder)
    if side == "BACK":
        # crosses when price <= best available to back
        if where == "through" and bb is not None:
            i = idx(bb) - rng.randint(1, 4)
        elif where == "at" and bb is not None:
            i = idx(bb)
        elif where == "behind":
            base = idx(bl) if bl is not None else (idx(bb) + 1 if bb is not None else n // 3)
            i = base + rng.choice([-1, 0, 0, 0, 1, 2]) if bb is None or base - 1 > idx(bb) else base + rng.choice([0, 0, 1, 2])
            if bb is not None and i <= idx(bb):
                i = idx(bb) + 1
        else:
            base = idx(bl) if bl is not None else n // 3
            i = base + rng.randint(3, 12)
    else:
        if where == "through" and bl is not None:
            i = idx(bl) + rng.randint(1, 4)
        elif where == "at" and bl is not None:
            i = idx(bl)
        elif where == "behind":
            base = idx(bb) if bb is not None else (idx(bl) - 1 if bl is not None else n // 3)
            i = base + rng.choice([0, 0, -1, -2])
            if bl is not None and i >= idx(bl):
                i = idx(bl) - 1
        else:
            base = idx(bb) if bb is not None else n // 3
            i = base - rng.randint(3, 12)
    i = max(0, min(n - 1, i))
    return ladder[i]


def gen_place(rng, market, upd, mix, n_trades):
    ladder = ladder_for(market, mix.get("dyadic"))
    sels = [s for s in market["runners"]]
    act = [s for s in sels if upd["r"][str(s)]["st"] == "ACTIVE"] or sels
    sel = rng.choice(act if rng.random() < 0.93 else sels)
    book = upd["r"][str(sel)]
    side = rng.choice(mix["sides"])
    a = {"op": "place", "sel": sel, "side": side}
    if market.get("line"):
        a["line"] = market["line"]
    if rng.random() < mix["p_sp"] and not market.get("line"):
        if rng.random() < 0.5:
            a["type"] = "MOC"
            a["liability"] = r2(rng.uniform(2, mix["max_size"] + 10)) if not mix["dyadic"] else float(rng.randint(2, 12))
        else:
            a["type"] = "LOC"
            a["liability"] = r2(rng.uniform(2, mix["max_size"] + 10)) if not mix["dyadic"] else float(rng.randint(2, 12))
            a["price"] = pick_price(rng, ladder, book, side, rng.choice(["at", "behind", "through"]))
    else:
        a["type"] = "LIMIT"
        a["price"] = pick_price(rng, ladder, book, side, rng.choice(mix["where"]))
        a["size"] = float(rng.randint(1, max(1, int(mix["max_size"])))) if mix["dyadic"] else r2(rng.uniform(0.5, mix["max_size"]) if rng.random() < 0.9 else rng.uniform(2, 3 * mix["max_size"]))
        a["persistence"] = rng.choice(mix["persistence"])
        if rng.random() < mix["p_fok"]:
            a["tif"] = "FILL_OR_KILL"
            c = rng.choice(["none", "below", "equal", "above", "tiny"])
            if c == "below":
                a["min_fill"] = r2(max(0.01, a["size"] * rng.uniform(0.1, 0.9)))
            elif c == "equal":
                a["min_fill"] = a["size"]
            elif c == "above":
                a["min_fill"] = r2(a["size"] + rng.choice([0.01, 1.0]))
            elif c == "tiny":
                a["min_fill"] = 0.01
        if rng.random() < mix["p_invalid"]:
            k = rng.choice(["price", "size", "size0"])
            if k == "price":
                a["price"] = r2(a["price"] + 0.003) if a["price"] < 2 else a["price"] + 0.013
            elif k == "size":
                a["size"] = a["size"] + 0.001
            else:
                a["size"] = 0.0
    if rng.random() < mix["p_mv"]:
        a["mv"] = rng.choice(["cur", "cur", -1, 1])
    if rng.random() < mix["p_force"]:
        a["force"] = True
    if rng.random() < mix["p_ctx"]:
        a["ctx"] = True
    if n_trades and rng.random() < mix["p_same_trade"]:
        a["trade"] = rng.randint(0, n_trades - 1)
        if mix.get("p_reuse_done") and rng.random() < mix["p_reuse_done"]:
            a["reuse_done"] = True  # also when that trade has completed: a re-used trade
    prs = rng.choice(mix["prs"])
    rs = rng.choice(mix["rs"])
    if prs:
        a["prs"] = prs
    if rs:
        a["rs"] = rs
    return a


def gen_other(rng, market, upd, mix, kind, n_created):
    if n_created <= 0:
        ref = -1
    elif rng.random() < mix.get("p_live_ref", 0.6):
        ref = {"live": rng.choice([0, 0, 0, 1, 2])}
    else:
        ref = rng.choice([-1, -1, -1, -2, -2, -3, rng.randint(0, n_created - 1)])
    a = {"op": kind, "order": ref}
    if kind == "cancel":
        if rng.random() < mix["p_partial_cancel"]:
            x = rng.random()
            if x < 0.25:
                a["red"] = "rem"
            elif x < 0.6:
                a["red"] = rng.choice([0.5, 1.0, 1.5, 2.0])
            else:
                a["red"] = float(rng.randint(1, 3)) if mix["dyadic"] else r2(rng.uniform(0.1, mix["max_size"]))
    elif kind == "update":
        a["pt"] = rng.choice(["PERSIST", "LAPSE", "MARKET_ON_CLOSE"])
    elif kind == "replace":
        ladder = ladder_for(market, mix.get("dyadic"))
        sel = rng.choice(market["runners"])
        book = upd["r"][str(sel)]
        a["price"] = pick_price(rng, ladder, book, rng.choice(["BACK", "LAY"]), rng.choice(mix["where"]))
        if rng.random() < mix["p_mv"]:
            a["mv"] = rng.choice(["cur", -1])
    if rng.random() < mix["p_force"]:
        a["force"] = True
    return a


def add_script(rng, scenario, strat, mix=None):
    """Attach actions for strategy `strat` (a strategy spec of the scenario) to the updates."""
    m = dict(DEFAULT_MIX)
    m.update(mix or {})
    name = strat["name"]
    kinds = ["place", "cancel", "update", "replace", "txn"]
    weights = [m["w_place"], m["w_cancel"], m["w_update"], m["w_replace"], m["w_txn"]]
    for mi in strat["markets"]:
        market = scenario["markets"][mi]
        n_created = 0
        n_trades = 0
        for upd in market["updates"]:
            if upd["st"] == "CLOSED":
                continue
            if rng.random() >= m["p_act"]:
                continue
            acts = []
            for _ in range(rng.choice([1, 1, 1, 2, 3])):
                kind = rng.choices(kinds, weights)[0]
                if n_created == 0:
                    kind = "place" if kind != "txn" else "txn"
                if kind == "place":
                    a = gen_place(rng, market, upd, m, n_trades)
                    n_created += 1
                    if "trade" not in a:
                        n_trades += 1
                elif kind == "txn":
                    subs = []
                    for _ in range(rng.randint(1, 4)):
                        k2 = rng.choices(kinds[:4], weights[:4])[0]
                        if k2 == "place" or n_created == 0:
                            s = gen_place(rng, market, upd, m, n_trades)
                            n_created += 1
                            if "trade" not in s:
                                n_trades += 1
                        else:
                            s = gen_other(rng, market, upd, m, k2, n_created)
                        subs.append(s)
                    a = {"op": "txn", "acts": subs}
                    if rng.random() < 0.3:
                        a["exec_after"] = [rng.randrange(len(subs))]
                    if rng.random() < m.get("p_txn_propagate", 0.0):
                        a["propagate"] = True
                else:
                    a = gen_other(rng, market, upd, m, kind, n_created)
                acts.append(a)
            key = "oacts" if rng.random() < m["p_oacts"] else "acts"
            upd.setdefault(key, {}).setdefault(name, []).extend(acts)
