"""Core: seed derivation, violations, digests, delta debugging, known findings, evidence."""
import hashlib
import json
import os
import random
import time
from collections import Counter

from . import rt


def derive_seed(base: int, check: str, i: int) -> int:
    h = hashlib.sha256(("%d/%s/%d" % (base, check, i)).encode()).digest()
    return int.from_bytes(h[:8], "big")


def rng_for(base: int, check: str, i: int) -> random.Random:
    return random.Random(derive_seed(base, check, i))


def digest(obj) -> str:
    return hashlib.sha256(repr(obj).encode()).hexdigest()


def jdigest(obj) -> str:
    return hashlib.sha256(json.dumps(obj, sort_keys=True, default=str).encode()).hexdigest()


class SimulationAbort(BaseException):
    """Unwinds parked SUT threads; flumine catches Exception, not BaseException."""


class HarnessError(Exception):
    pass


def violation(prop: str, clause: str, site: str, **details) -> dict:
    return {"property": prop, "clause": clause, "site": site, "details": details}


def vkey(v: dict) -> tuple:
    return (v["property"], v["clause"], v["site"])


class Result:
    """Outcome of executing one scenario (one or several simulated runs)."""

    __slots__ = (
        "violations",
        "probes",
        "faults",
        "nontrivial",
        "digest",
        "sim_seconds",
        "states",
        "harness_error",
        "discarded",
        "runs",
        "steps",
    )

    def __init__(self):
        self.violations = []
        self.probes = Counter()
        self.faults = Counter()
        self.nontrivial = False
        self.digest = ""
        self.sim_seconds = 0.0
        self.states = set()
        self.harness_error = None
        self.discarded = None
        self.runs = 1
        self.steps = 0

    def violate(self, prop, clause, site, **details):
        # keep the first violation of each (property, clause, site) only
        k = (prop, clause, site)
        for v in self.violations:
            if vkey(v) == k:
                return
        self.violations.append(violation(prop, clause, site, **details))


# ----------------------------------------------------------------------------- known findings


class KnownFindings:
    def __init__(self, path=None):
        path = path or os.path.join(rt.VERIF_ROOT, "known_findings.json")
        self.entries = []
        self.fixed = []
        if os.path.exists(path):
            data = json.load(open(path))
            self.entries = data.get("known", [])
            self.fixed = data.get("fixed", [])

    def match(self, v: dict):
        for e in self.entries:
            if e["property"] != v["property"] or e["clause"] != v["clause"]:
                continue
            if e.get("site") is not None and e["site"] != v["site"]:
                continue
            ok = True
            for k, want in (e.get("where") or {}).items():
                if v["details"].get(k) != want:
                    ok = False
                    break
            if ok:
                return e
        return None


# ----------------------------------------------------------------------------- ddmin


def ddmin(items: list, test, deadline: float, keep_first: int = 0) -> list:
    """Classic delta debugging: smallest sub-list (order kept) for which test(sub) is True.
    `keep_first` leading items are never removed."""
    head, items = items[:keep_first], items[keep_first:]
    n = 2
    while len(items) >= 1 and time.time() < deadline:
        if len(items) == 1:
            if test(head + []):
                items = []
            break
        chunk = max(1, len(items) // n)
        subsets = [items[i : i + chunk] for i in range(0, len(items), chunk)]
        reduced = False
        for i in range(len(subsets)):
            if time.time() >= deadline:
                break
            complement = [x for j, s in enumerate(subsets) if j != i for x in s]
            if test(head + complement):
                items = complement
                n = max(n - 1, 2)
                reduced = True
                break
        if not reduced:
            if n >= len(items):
                break
            n = min(len(items), n * 2)
    return head + items


# ----------------------------------------------------------------------------- evidence


def write_evidence(
    check_id,
    tier,
    seed,
    level,
    agg,
    rule,
    assumptions,
    components,
    wall_s,
    violations,
    extra=None,
):
    evaluations = agg["evaluations"]
    coverage = {
        "evaluations": evaluations,
        "distinct_nontrivial": len(agg["nontrivial_digests"]),
        "rule": rule,
        "samples": agg["samples"][:3],
        "simulated_runs": agg["runs"],
        "runs_per_hour": int(agg["runs"] / wall_s * 3600) if wall_s > 0 else 0,
        "seeds_per_hour": int(evaluations / wall_s * 3600) if wall_s > 0 else 0,
        "simulated_seconds_covered": round(agg["sim_seconds"], 1),
        "scheduler_steps": agg["steps"],
        "faults_fired": dict(sorted(agg["faults"].items())),
        "probes": dict(sorted(agg["probes"].items())),
        "distinct_event_logs": len(agg["digests"]),
        "event_log_set_digest": digest("\n".join(sorted(agg["digests"]))),
        "distinct_abstract_states": len(agg["states"]),
        "discarded_runs": dict(sorted(agg["discarded"].items())),
        "harness_errors": agg["harness_errors"],
        "known_findings_seen": dict(sorted(agg["known_seen"].items())),
        "components": components,
        "exhaustive": False,
    }
    if extra:
        coverage.update(extra)
    ev = {
        "property_id": check_id,
        "tier": tier,
        "seed": seed,
        "level": level,
        "coverage": coverage,
        "assumptions": assumptions,
        "wall_s": round(wall_s, 2),
        "violations": violations,
    }
    path = os.path.join(os.environ.get("VERIF_EVIDENCE_DIR") or os.path.join(rt.VERIF_ROOT, "evidence"), "%s.json" % check_id)
    os.makedirs(os.path.dirname(path), exist_ok=True)
    tmp = path + ".tmp"
    with open(tmp, "w") as f:
        json.dump(ev, f, indent=1, sort_keys=True, default=str)
    os.replace(tmp, path)
    return path
