"""World A - BacktestSim: runs the real FlumineSimulation over in-memory stream files with scripted
agents; observers are attached by wrapping flumine methods inside the checker process."""
import io
import os
import json
import sys
import traceback
import datetime as _dt_mod

from . import rt, core, marketgen

_real_datetime_class = _dt_mod.datetime

# flumine imports happen lazily (after rt.bootstrap())
_F = {}


def _load():
    if _F:
        return _F
    import smart_open
    import flumine
    from flumine import config, FlumineSimulation, clients, BaseStrategy
    from flumine.order.order import BaseOrder, OrderStatus
    from flumine.order.trade import Trade
    from flumine.order.ordertype import LimitOrder, LimitOnCloseOrder, MarketOnCloseOrder
    from flumine.order import order as order_mod, trade as trade_mod, orderpackage as package_mod
    from flumine.execution.transaction import Transaction
    from flumine.execution.simulatedexecution import SimulatedExecution
    from flumine.controls.clientcontrols import MaxTransactionCount
    from flumine.markets.middleware import SimulatedMiddleware, Middleware
    from flumine.markets.blotter import Blotter
    from flumine.baseflumine import BaseFlumine
    from flumine.exceptions import OrderUpdateError, OrderError, FlumineException
    from flumine import utils as futils
    from betfairlightweight.resources.bettingresources import LineRangeInfo
    from betfairlightweight.resources.baseresource import BaseResource

    _F.update(locals())
    _install_wrappers()
    return _F


# --------------------------------------------------------------------------- current run + dispatch
CUR = None  # the BacktestRun currently executing in this process


def _dispatch(hook, *args):
    run = CUR
    if run is None or getattr(run, "aborting", False):
        return
    for fn in run.hooks.get(hook, ()):
        try:
            fn(*args)
        except core.SimulationAbort:
            raise
        except Exception as e:
            # an exception whose innermost frame is flumine code - the oracle called a flumine API (a blotter view, a
            # property of an order) and THAT raised - is a failure of the system under test seen by the monitor's
            # property, not a harness error
            tb = traceback.extract_tb(e.__traceback__)
            inner = tb[-1] if tb else None
            owner = getattr(getattr(fn, "__self__", None), "P", None)
            if inner is not None and os.sep + "flumine" + os.sep in inner.filename and os.sep + "simkit" + os.sep not in inner.filename and owner:
                key = (owner, inner.filename, inner.name)
                if key not in run._obs_crashes:
                    run._obs_crashes.add(key)
                    run.res.violate(owner, "%s.sut-crash" % owner, "observed-api-raised:%s:%s" % (os.path.basename(inner.filename), inner.name), exc="%s: %s" % (type(e).__name__, e), hook=hook)
                continue
            if run.harness_error is None:
                run.harness_error = "hook %s: %s" % (hook, traceback.format_exc())


def _install_wrappers():
    F = _F
    BaseOrder = F["BaseOrder"]
    Transaction = F["Transaction"]
    FS = F["FlumineSimulation"]

    orig_init = BaseOrder.__init__

    def order_init(self, *a, **k):
        orig_init(self, *a, **k)
        run = CUR
        if run is not None:
            run.n_orders += 1
            self._vid = run.n_orders
            _dispatch("order_created", self)

    BaseOrder.__init__ = order_init

    orig_us = BaseOrder._update_status

    def update_status(self, status):
        prev = self.status
        if CUR is not None:
            _dispatch("status_before", self, prev, status)
        orig_us(self, status)
        if CUR is not None:
            _dispatch("status", self, prev, status)

    BaseOrder._update_status = update_status

    def wrap_request(kind, name):
        orig = getattr(Transaction, name)

        def wrapper(self, order, *a, **k):
            if CUR is None:
                return orig(self, order, *a, **k)
            _dispatch("request_before", kind, self, order, a, k)
            try:
                res = orig(self, order, *a, **k)
            except core.SimulationAbort:
                raise
            except BaseException as e:
                _dispatch("request_after", kind, self, order, a, k, None, e)
                raise
            _dispatch("request_after", kind, self, order, a, k, res, None)
            return res

        setattr(Transaction, name, wrapper)

    wrap_request("PLACE", "place_order")
    wrap_request("CANCEL", "cancel_order")
    wrap_request("UPDATE", "update_order")
    wrap_request("REPLACE", "replace_order")

    from flumine.strategy.runnercontext import RunnerContext

    for name in ("place", "reset"):

        def mk(orig, name):
            def wrapper(self, *a, **k):
                r = orig(self, *a, **k)
                if CUR is not None:
                    _dispatch("ctx_" + name, self)
                return r

            return wrapper

        setattr(RunnerContext, name, mk(getattr(RunnerContext, name), name))

    orig_exec = Transaction.execute

    def txn_execute(self):
        if CUR is not None:
            _dispatch("txn_execute_before", self)
        n = orig_exec(self)
        if CUR is not None:
            _dispatch("txn_execute", self, n)
        return n

    Transaction.execute = txn_execute

    orig_exit = Transaction.__exit__

    def txn_exit(self, *a):
        r = orig_exit(self, *a)
        if CUR is not None:
            _dispatch("txn_exit", self)
        return r

    Transaction.__exit__ = txn_exit

    orig_pop = FS.process_order_package

    def process_order_package(self, pkg):
        if CUR is not None:
            _dispatch("package", pkg)
        return orig_pop(self, pkg)

    FS.process_order_package = process_order_package

    orig_pmb = FS._process_market_books

    def process_market_books(self, event):
        if CUR is None:
            return orig_pmb(self, event)
        for mb in event.event:
            CUR._update_start(mb)
        try:
            return orig_pmb(self, event)
        finally:
            for mb in event.event:
                CUR._update_end(mb)

    FS._process_market_books = process_market_books

    SE = F["SimulatedExecution"]
    orig_handler = SE.handler

    def handler(self, pkg):
        if CUR is None:
            return orig_handler(self, pkg)
        _dispatch("exec_before", pkg)
        try:
            r = orig_handler(self, pkg)
        except core.SimulationAbort:
            raise
        except Exception:
            # the execution handler itself crashed: that crash is the finding (owned through SITE_OWNERS); the
            # per-package oracles are not run on the half-processed package
            CUR.res.probes["exec.handler_raised"] += 1
            raise
        _dispatch("exec_after", pkg)
        return r

    SE.handler = handler

    SM = F["SimulatedMiddleware"]
    orig_sm = SM.__call__

    def sm_call(self, market):
        if CUR is not None:
            _dispatch("before_matching", market)
        r = orig_sm(self, market)
        if CUR is not None:
            _dispatch("after_matching", market)
        return r

    SM.__call__ = sm_call

    MTC = F["MaxTransactionCount"]
    orig_add = MTC.add_transaction

    def add_transaction(self, count, failed=False):
        orig_add(self, count, failed)
        if CUR is not None:
            _dispatch("add_transaction", self, count, failed)

    MTC.add_transaction = add_transaction

    Blotter = F["Blotter"]
    orig_pcm = Blotter.process_closed_market

    def blotter_pcm(self, market, market_book):
        r = orig_pcm(self, market, market_book)
        if CUR is not None:
            _dispatch("results", market, market_book)
        return r

    Blotter.process_closed_market = blotter_pcm

    from flumine.controls import BaseControl

    orig_on_error = BaseControl._on_error

    def control_on_error(self, order, error):
        if CUR is not None:
            _dispatch("control_error", self, order, error)
        return orig_on_error(self, order, error)

    BaseControl._on_error = control_on_error

    Market = F["flumine"].markets.market.Market
    orig_mcall = Market.__call__

    def market_call(self, market_book):
        r = orig_mcall(self, market_book)
        run = CUR
        if run is not None:
            f = getattr(run, "index_of", None)  # World B runs (LiveRun) share this class-level wrapper and keep no arrival index
            run.held[self.market_id] = f(self.market_id, market_book.publish_time_epoch, holding=True) if f else run.pt_index.get(self.market_id, {}).get(market_book.publish_time_epoch)
        return r

    Market.__call__ = market_call

    BF = F["BaseFlumine"]
    orig_close = BF._process_close_market

    def close_market(self, event):
        if CUR is not None:
            _dispatch("close_before", self, event)
        r = orig_close(self, event)
        if CUR is not None:
            _dispatch("close_after", self, event)
        return r

    BF._process_close_market = close_market

    orig_rm = BF._remove_market

    def remove_market(self, market, clear=True):
        r = orig_rm(self, market, clear)
        if CUR is not None:
            _dispatch("remove_market", self, market, clear)
        return r

    BF._remove_market = remove_market


# --------------------------------------------------------------------------- deterministic ids


class _FakeUUID1:
    __slots__ = ("time",)

    def __init__(self, t):
        self.time = t


class FakeUUIDModule:
    """Replaces the `uuid` module attribute of flumine modules: ids become run-local counters."""

    def __init__(self):
        import uuid as real

        self._real = real
        self.n1 = 138_000_000_000_000_000
        self.n4 = 0

    def uuid1(self):
        self.n1 += 7
        return _FakeUUID1(self.n1)

    def uuid4(self):
        self.n4 += 1
        return self._real.UUID(int=(0xABCD << 100) + self.n4)

    def __getattr__(self, item):
        return getattr(self._real, item)


class SyncLoggingControl:
    """Recording logging control: receives every log_control event synchronously."""

    NAME = "SIM_LOGGING_CONTROL"

    class _Q:
        def __init__(self, outer):
            self.outer = outer

        def put(self, event):
            _dispatch("log", event)

    def __init__(self):
        self.logging_queue = self._Q(self)

    def start(self):
        pass

    def is_alive(self):
        return False

    def join(self):
        pass


# --------------------------------------------------------------------------- agent


def make_agent_class():
    F = _load()
    BaseStrategy = F["BaseStrategy"]
    OrderStatus = F["OrderStatus"]
    BUSY = (OrderStatus.PENDING, OrderStatus.CANCELLING, OrderStatus.UPDATING, OrderStatus.REPLACING)

    class ScriptAgent(BaseStrategy):
        def __init__(self, run, spec, **kw):
            super().__init__(**kw)
            self.run = run
            self.spec = spec
            self.orders = {}  # market_id -> [orders in creation/discovery order]
            self.trades = {}  # market_id -> [trades]
            self.seen = set()
            self.log = []  # (market, pt, kind, action ordinal, outcome)
            self.calls = []  # (kind, market_id, pt_ms)
            self._done = set()

        # -- callbacks
        def check_market_book(self, market, market_book):
            if self.spec.get("reads_wall_clock") and hasattr(self.run.fw, "simulated_datetime"):
                with self.run.fw.simulated_datetime.real_time() as real_dt:
                    real_dt.utcnow()
                self.run.res.probes["agent.real_time_block_used"] += 1
            self.calls.append(("check", market.market_id, market_book.publish_time_epoch))
            _dispatch("strategy_call", self, market, "check")
            self.run._maybe_raise(self, "check", market)
            return True

        def process_market_book(self, market, market_book):
            self.calls.append(("book", market.market_id, market_book.publish_time_epoch))
            _dispatch("strategy_call", self, market, "book")
            self.run._maybe_raise(self, "book", market)
            self._perform(market, "acts")

        def process_orders(self, market, orders):
            self.calls.append(("orders", market.market_id, self.run.cur_pt.get(market.market_id)))
            _dispatch("strategy_call", self, market, "orders")
            self.run._maybe_raise(self, "orders", market)
            self._perform(market, "oacts")

        def process_new_market(self, market, market_book):
            self.calls.append(("new", market.market_id, market_book.publish_time_epoch))
            lr = self.run.markets_by_id[market.market_id].get("line_result")
            if lr is not None:
                market.context["line_range_result"] = lr
            _dispatch("strategy_call", self, market, "new")
            self.run._maybe_raise(self, "new", market)

        def process_closed_market(self, market, market_book):
            pt = market_book.get("_pt") if isinstance(market_book, dict) else market_book.publish_time_epoch
            self.calls.append(("closed", market.market_id, pt))
            _dispatch("strategy_closed", self, market, market_book)

        def check_sports_data(self, market, sports_data):
            self.calls.append(("sports_check", market.market_id, sports_data.publish_time_epoch))
            self.run._maybe_raise(self, "sports_check", market)
            return True

        def process_sports_data(self, market, sports_data):
            self.calls.append(("sports", market.market_id, sports_data.publish_time_epoch))
            self.run._maybe_raise(self, "sports", market)

        def process_raw_data(self, clk, publish_time, datum):
            self.calls.append(("raw", datum.get("id"), publish_time))
            self.run._maybe_raise(self, "raw", None)

        # -- script execution
        def _sync(self, market):
            lst = self.orders.setdefault(market.market_id, [])
            for o in market.blotter._strategy_orders.get(self, ()):
                if id(o) not in self.seen:
                    self.seen.add(id(o))
                    lst.append(o)
            return lst

        def _perform(self, market, key):
            run = self.run
            upd = run.cur_update.get(market.market_id)
            if upd is None or self.spec.get("silent"):
                return
            dk = (market.market_id, upd["pt"], key)
            if dk in self._done:
                return  # live mode: process_orders is called on every order-stream event
            self._done.add(dk)
            acts = (upd.get(key) or {}).get(self.name)
            if not acts:
                return
            self._sync(market)
            for a in acts:
                self._do(market, market, a)

        def _do(self, market, txn, a, reraise=False):
            run = self.run
            op = a["op"]
            if "mkt" in a:
                # request on another market of the run (falls between two updates of that market)
                other = run.scenario["markets"][a["mkt"]]["id"] if a["mkt"] < len(run.scenario["markets"]) else None
                target = run.fw.markets.markets.get(other)
                if target is None or target.market_book is None:
                    run.res.probes["agent.dangling"] += 1
                    return
                if target is not market:
                    self._sync(target)
                    if txn is market:
                        txn = target
                    market = target
            try:
                if op == "txn":
                    t = market.transaction(client=self._client())
                    if a.get("propagate"):
                        # the strategy does not catch state rejections inside the block: the first one ends the batch
                        try:
                            with t:
                                for i, sub in enumerate(a["acts"]):
                                    self._do(market, t, sub, reraise=True)
                                    if i in a.get("exec_after", ()):
                                        t.execute()
                        except (_F["OrderUpdateError"], _F["OrderError"]):
                            run.res.probes["agent.txn.ended_by_exception"] += 1
                        return
                    with t:
                        for i, sub in enumerate(a["acts"]):
                            self._do(market, t, sub)
                            if i in a.get("exec_after", ()):
                                t.execute()
                    return
                if op == "place":
                    self._place(market, txn, a)
                    return
                if op == "create":
                    # create the order on its trade now, place it later (second leg of a multi-order trade)
                    self._place(market, txn, a, create_only=True)
                    return
                if op == "bulk_place":
                    t = market.transaction(client=self._client())
                    with t:
                        for i in range(a["n"]):
                            sub = dict(a["proto"])
                            if a.get("mvs"):
                                sub["mv"] = a["mvs"][i % len(a["mvs"])]
                            self._place(market, t, sub)
                            if i in a.get("exec_after", ()):
                                t.execute()
                    return
                if op == "bulk":
                    lst = self.orders.setdefault(market.market_id, [])
                    live = [o for o in lst if o.status is not None and o.status.name == "EXECUTABLE"][: a["n"]]
                    t = market.transaction(client=self._client())
                    with t:
                        # (round 22, C02-n) the same transaction first builds a package of ANOTHER kind: a placement before the
                        # bulk modifications, optionally executed at once so that the transaction is used a second time
                        for sub in a.get("lead", ()):
                            self._place(market, t, dict(sub))
                            run.res.probes["agent.bulk.lead_place_in_the_same_transaction"] += 1
                        if a.get("lead") and a.get("lead_exec"):
                            t.execute()
                        for i, o in enumerate(live):
                            try:
                                if a["kind"] == "cancel":
                                    t.cancel_order(o)
                                elif a["kind"] == "update":
                                    t.update_order(o, "PERSIST" if getattr(o.order_type, "persistence_type", None) != "PERSIST" else "LAPSE")
                                else:
                                    mv = self._mv(market, (a.get("mvs") or [None])[i % len(a.get("mvs") or [None])])
                                    t.replace_order(o, a["price"], market_version=mv)
                            except (_F["OrderUpdateError"], _F["OrderError"]):
                                run.res.probes["agent.bulk.rejected"] += 1
                    run.res.probes["agent.bulk.%s" % a["kind"]] += 1
                    return
                if op == "raise":
                    if a.get("flumine"):
                        raise _F["FlumineException"]("scripted")
                    raise RuntimeError("scripted")
                lst = self.orders.setdefault(market.market_id, [])
                i = a["order"]
                if isinstance(i, dict):
                    # {"live": k}: k-th most recent own order that is resting executable
                    live = [o for o in lst if o.status is not None and o.status.name == "EXECUTABLE"]
                    k_ = i.get("live", 0)
                    if k_ < len(live):
                        order = live[-1 - k_]
                    elif lst:
                        order = lst[-1]
                    else:
                        run.res.probes["agent.dangling"] += 1
                        return
                else:
                    if i < 0:
                        i = len(lst) + i
                    if i < 0 or i >= len(lst):
                        run.res.probes["agent.dangling"] += 1
                        return
                    order = lst[i]
                kw = {"force": True} if a.get("force") else {}
                if op == "place_pending":
                    # place an order that was created earlier and never placed
                    cand = [o for o in lst if o.status is None]
                    if not cand:
                        run.res.probes["agent.dangling"] += 1
                        return
                    o2 = cand[0]
                    r = txn.place_order(o2, **kw) if txn is not market else txn.place_order(o2, client=self._client(), **kw)
                    run.res.probes["agent.place_pending.%s" % ("ok" if r else "refused")] += 1
                    return
                if op == "place_again":
                    if a.get("live_trade_only") and order.trade.status.name == "COMPLETE" and order.id not in market.blotter:
                        run.res.probes["agent.place_again.skipped_completed_trade"] += 1
                        return  # placing on a COMPLETED trade is outside C10's quantifier (see tools/parity_reuse.sh)
                    r = txn.place_order(order, **kw) if txn is not market else txn.place_order(order, client=self._client(), **kw)
                    run.res.probes["agent.place_again.%s" % ("ok" if r else "refused")] += 1
                    return
                if op == "cancel":
                    red = a.get("red")
                    if red == "rem":
                        try:
                            red = order.size_remaining or None
                        except TypeError:  # refused order with an invalid (zero) size
                            red = None
                    elif isinstance(red, str) and red.startswith("f"):
                        # a fraction of what remains (e.g. more than half of it)
                        try:
                            red = round(float(red[1:]) * order.size_remaining, 2) or None
                        except TypeError:
                            red = None
                    r = txn.cancel_order(order, red, **kw)
                elif op == "update":
                    if a.get("betdaq"):
                        r = txn.update_order(order, size_delta=a.get("size_delta", 0.0), new_price=a.get("new_price"), **kw)
                    else:
                        r = txn.update_order(order, a["pt"], **kw)
                elif op == "replace":
                    mv = self._mv(market, a.get("mv"))
                    r = txn.replace_order(order, a["price"], market_version=mv, **kw)
                else:
                    raise core.HarnessError("unknown op %r" % op)
                run.res.probes["agent.%s.%s" % (op, "ok" if r else "refused")] += 1
            except (_F["OrderUpdateError"], _F["OrderError"]) as e:
                run.res.probes["agent.%s.rejected" % op] += 1
                if reraise:
                    raise
            except RuntimeError as e:
                if str(e) == "scripted":
                    raise
                # (RecursionError is a RuntimeError) raised inside flumine while serving the request -> SUT, else harness
                run.note_sut_exception(sys.exc_info())
            except _F["FlumineException"]:
                raise
            except core.SimulationAbort:
                raise
            except Exception:
                # an unexpected exception from inside flumine while serving a strategy request
                run.note_sut_exception(sys.exc_info())

        def _client(self):
            return self.run.clients[self.spec.get("client", 0)]

        def _mv(self, market, mv):
            if mv is None:
                return None
            if mv == "cur":
                return market.market_book.version
            return market.market_book.version + int(mv)

        def _place(self, market, txn, a, create_only=False):
            run = self.run
            F = _F
            sel, side = a["sel"], a["side"]
            # the runner key is (selection id, handicap): both come from the target market's definition (a["sel"] is the
            # generator's internal runner key; in a market with several lines per selection it maps to (selection, line))
            sel, hc = marketgen.wire_key(run.markets_by_id.get(market.market_id, {}), sel)
            trades = self.trades.setdefault(market.market_id, [])
            t = a.get("trade")
            if t is not None and t < 0:
                t = len(trades) + t
            reuse_done = bool(a.get("reuse_done")) and t is not None and 0 <= t < len(trades) and trades[t].status.name == "COMPLETE"
            if t is not None and 0 <= t < len(trades) and (trades[t].status.name == "LIVE" or reuse_done):
                sel = trades[t].selection_id  # an order always lives on its trade's selection
                hc = trades[t].handicap
            if self.spec.get("discipline"):
                for o in market.blotter._strategy_selection_orders.get((self, sel, hc), ()):
                    if o.status in BUSY:
                        run.res.probes["agent.place.deferred"] += 1
                        return
            if t is not None and 0 <= t < len(trades) and (trades[t].status.name == "LIVE" or reuse_done) and trades[t].selection_id == sel:
                trade = trades[t]
                if reuse_done:
                    run.res.probes["agent.place.on_completed_trade"] += 1
            else:
                trade = F["Trade"](
                    market.market_id,
                    sel,
                    hc,
                    self,
                    place_reset_seconds=a.get("prs", 0.0),
                    reset_seconds=a.get("rs", 0.0),
                )
                trades.append(trade)
            typ = a.get("type", "LIMIT")
            if a.get("probe") and typ == "LIMIT" and not a.get("line") and not a.get("betdaq"):
                # boundary-seeking order: sized at run time so that the decision falls just outside / inside the limit
                for mon in run.monitors:
                    f = getattr(mon, "boundary_size", None)
                    if f is not None:
                        sz = f(market, self, sel, side, a["price"], a["probe"])
                        if sz is not None:
                            a = dict(a, size=sz)
                        break
            if a.get("betdaq"):
                from flumine.order.ordertype import BetdaqLimitOrder

                ot = BetdaqLimitOrder(a["price"], a["size"], betdaq_runner_id=sel, runner_reset_count=0, withdrawal_sequence_number=0)
                order = trade.create_betdaq_order(side, ot)
                lst = self.orders.setdefault(market.market_id, [])
                lst.append(order)
                self.seen.add(id(order))
                kw = {"force": True} if a.get("force") else {}
                if txn is market:
                    kw["client"] = self._client()
                r = txn.place_order(order, **kw)
                run.res.probes["agent.place.%s" % ("ok" if r else "refused")] += 1
                return
            if typ == "LIMIT":
                kw = {}
                if a.get("line"):
                    lo, hi, step = a["line"]
                    kw["price_ladder_definition"] = "LINE_RANGE"
                    kw["line_range_info"] = F["LineRangeInfo"](
                        marketUnit="runs", interval=step, minUnitValue=lo, maxUnitValue=hi
                    )
                elif a.get("ladder"):
                    kw["price_ladder_definition"] = a["ladder"]
                ot = F["LimitOrder"](
                    a["price"],
                    a["size"],
                    persistence_type=a.get("persistence", "LAPSE"),
                    time_in_force=a.get("tif"),
                    min_fill_size=a.get("min_fill"),
                    **kw,
                )
            elif typ == "LOC":
                ot = F["LimitOnCloseOrder"](a["liability"], a["price"])
            else:
                ot = F["MarketOnCloseOrder"](a["liability"])
            order = trade.create_order(side, ot)
            lst = self.orders.setdefault(market.market_id, [])
            lst.append(order)
            self.seen.add(id(order))
            if create_only:
                run.res.probes["agent.create_unplaced"] += 1
                return
            mv = self._mv(market, a.get("mv"))
            kw = {"force": True} if a.get("force") else {}
            if txn is market:
                kw["client"] = self._client()
            if a.get("ctx"):
                with trade:
                    r = txn.place_order(order, market_version=mv, **kw)
            else:
                r = txn.place_order(order, market_version=mv, **kw)
            run.res.probes["agent.place.%s" % ("ok" if r else "refused")] += 1

    return ScriptAgent


_AGENT_CLS = None


def agent_class():
    global _AGENT_CLS
    if _AGENT_CLS is None:
        _AGENT_CLS = make_agent_class()
    return _AGENT_CLS


# --------------------------------------------------------------------------- the run


class Monitor:
    """Base class of observers/oracles. Methods named on_<hook> are registered automatically."""

    def __init__(self, run):
        self.run = run
        self.res = run.res

    def violate(self, prop, clause, site, **details):
        self.res.violate(prop, clause, site, **details)


HOOKS = (
    "order_created status_before status request_before request_after txn_execute_before txn_execute txn_exit package exec_before "
    "exec_after before_matching after_matching add_transaction results close_before close_after "
    "remove_market strategy_call strategy_closed log update_start update_end begin end control_error scripted_control_called ctx_place ctx_reset"
).split()

SITE_OWNERS = (
    ("execution/", "C12"),
    ("simulation/simulatedorder.py", "C05"),
    ("markets/middleware.py", "C09"),
    ("controls/", "C02"),
    ("execution/transaction.py", "C02"),
    ("order/process.py", "C11"),
    ("markets/blotter.py", "C15"),
    ("order/trade.py", "C10"),
    ("strategy/", "C10"),
    ("simulation/simulation.py", "C14"),
    ("baseflumine.py", "C20"),
    ("order/order.py", "C03"),
)


def sut_site(exc_info):
    """Innermost frame inside the flumine tree under test: (relative file, function)."""
    root = rt.repo_root().rstrip("/") + "/flumine/"
    tb = exc_info[2]
    site = None
    while tb is not None:
        fn = tb.tb_frame.f_code.co_filename
        if fn.startswith(root):
            cand = (fn[len(root):], tb.tb_frame.f_code.co_name)
            # an exception below an execute_* handler belongs to that handler (it strands the package)
            if site is not None and site[0].startswith("execution/") and site[0] != "execution/transaction.py" and site[1].startswith("execute_"):
                pass
            else:
                site = cand
        tb = tb.tb_next
    return site


class BacktestRun:
    def __init__(self, scenario, monitor_classes, owner=None):
        self.scenario = scenario
        self.res = core.Result()
        self.owner = owner  # property id that owns SUT crashes in this run
        self.harness_error = None
        self.hooks = {}
        self.n_orders = 0
        self.monitors = []
        self.monitor_classes = monitor_classes
        self.cur_update = {}  # market_id -> abstract update being processed
        self.cur_index = {}  # market_id -> index j being processed
        self.cur_pt = {}
        self.last_delivered = {}  # market_id -> index of the last update fully processed
        self.held = {}  # market_id -> index of the update whose book flumine's Market object holds
        self.now_ms = None  # simulated time (publish time of the update being processed)
        self.markets_by_id = {m["id"]: m for m in scenario["markets"]}
        self._obs_crashes = set()
        if any(m.get("hc") for m in scenario["markets"]):
            self.res.probes["scenario.handicap_market"] += 1
        if any(m.get("rk") for m in scenario["markets"]):
            self.res.probes["scenario.selection_on_several_handicap_lines"] += 1
        self.pt_index = {
            m["id"]: {u["pt"]: j for j, u in enumerate(m["updates"])} for m in scenario["markets"]
        }
        self.same_pt = {}
        for m in scenario["markets"]:
            seen = {}
            for j, u in enumerate(m["updates"]):
                seen.setdefault(u["pt"], []).append(j)
            d = {pt: js for pt, js in seen.items() if len(js) > 1}
            if d:
                self.same_pt[m["id"]] = d
        self.fw = None
        self.clients = []
        self.agents = []
        self.crash = None
        self.update_log = []  # (market_id, pt) in processing order
        self.inject = scenario.get("inject")  # {"strategy","kind","nth","flumine"}
        self._inject_count = 0

    # -- helpers for monitors
    def state(self, market_id, j):
        return self.markets_by_id[market_id]["updates"][j]

    def rkey(self, order):
        """generator's runner key of an order's runner (selection id, handicap)"""
        return marketgen.internal_key(self.markets_by_id[order.market_id], order.selection_id, order.handicap)

    def note_harness(self, text):
        if self.harness_error is None:
            self.harness_error = text

    def note_sut_exception(self, exc_info):
        site = sut_site(exc_info)
        if site is None:
            self.note_harness("".join(traceback.format_exception(*exc_info)))
            return
        self._record_crash(site, exc_info, where="strategy request")

    def _record_crash(self, site, exc_info, where):
        prop = None
        for prefix, owner in SITE_OWNERS:
            if site[0].startswith(prefix):
                prop = owner
                break
        self.crash = {
            "site": site,
            "owner": prop,
            "exc": "%s: %s" % (exc_info[0].__name__, exc_info[1]),
            "where": where,
        }

    def _maybe_raise(self, strategy, kind, market):
        inj = self.inject
        if not inj or inj["strategy"] != strategy.name or inj["kind"] != kind:
            return
        self._inject_count += 1
        if self._inject_count == inj["nth"]:
            self.res.faults["callback_exception.%s" % kind] += 1
            if inj.get("in_real_time") and hasattr(self.fw, "simulated_datetime"):
                # the documented helper for reading the wall clock during a simulation; the exception leaves its block
                self.res.faults["callback_exception.inside_real_time_block"] += 1
                with self.fw.simulated_datetime.real_time():
                    raise ValueError("injected")
            if inj.get("flumine"):
                raise _F["FlumineException"]("injected")
            raise ValueError("injected")

    def index_of(self, mid, pt, holding=False):
        """Index of the update of `mid` with publish time `pt`. Two consecutive updates of one market may carry the same
        publish time (scenario key same_pt): the one being processed is then the first such index after the previous one."""
        dups = self.same_pt.get(mid)
        if dups and pt in dups:
            if holding:
                return self.cur_index.get(mid)
            prev = self.cur_index.get(mid)
            for j in dups[pt]:
                if prev is None or j > prev:
                    return j
            return dups[pt][-1]
        return self.pt_index.get(mid, {}).get(pt)

    def _update_start(self, mb):
        mid = mb.market_id
        j = self.index_of(mid, mb.publish_time_epoch)
        self.cur_index[mid] = j
        self.cur_pt[mid] = mb.publish_time_epoch
        self.now_ms = mb.publish_time_epoch
        self.cur_update[mid] = self.markets_by_id[mid]["updates"][j] if j is not None else None
        self.update_log.append((mid, mb.publish_time_epoch))
        _dispatch("update_start", mid, j, mb)

    def held_state(self, mid):
        """Generator's own book for the update whose MarketBook flumine currently holds for `mid`."""
        j = self.held.get(mid)
        if j is None:
            return None
        return self.markets_by_id[mid]["updates"][j]

    def _update_end(self, mb):
        mid = mb.market_id
        j = self.cur_index.get(mid)
        _dispatch("update_end", mid, j, mb)
        if mid in self.fw.markets.markets:
            self.last_delivered[mid] = j

    # -- execution
    def execute(self) -> core.Result:
        global CUR
        F = _load()
        import smart_open

        config = F["config"]
        sc = self.scenario
        cfg = sc.get("cfg", {})
        saved_cfg = {k: getattr(config, k) for k in dir(config) if not k.startswith("_") and isinstance(getattr(config, k), (int, float, bool, str, type(None)))}
        files = {}
        for m in sc["markets"]:
            files[marketgen.file_path(m)] = "\n".join(marketgen.serialise_lines(m)) + "\n"

        if sc.get("sports_data"):
            # recorded race data (rcm) per market, read by flumine's SimulatedSportsDataMiddleware through the same file seam
            for m in sc["markets"]:
                rids = list(m["runners"])
                lines = []
                for j, u in enumerate(m["updates"]):
                    if u.get("rcm"):
                        rc = {"mid": m["id"], "id": "%s.1200" % m["event_id"], "rpc": {"ft": u["pt"] - 1, "g": "1f", "st": 1.0, "rt": 2.0, "spd": 17.0, "prg": float(u["rcm"]), "ord": rids}, "rrc": [{"ft": u["pt"] - 1, "id": r, "long": 0.1, "lat": 0.2, "spd": 17.0, "prg": float(u["rcm"]), "sfq": 2.1} for r in rids[:2]]}
                        lines.append(json.dumps({"op": "rcm", "id": 123, "clk": "r%d" % j, "pt": u["pt"] - 1, "rc": [rc]}))
                files["/sportsdir/%s" % m["id"]] = "\n".join(lines) + "\n"

        def fake_open(path, mode="r", *a, **k):
            return io.StringIO(files[path])

        saved_open = smart_open.open
        fake_uuid = FakeUUIDModule()
        uuid_mods = [F["order_mod"], F["trade_mod"], F["package_mod"], F["futils"]]
        saved_uuid = [m.uuid for m in uuid_mods]
        F["BaseResource"].strip_datetime.cache_clear()
        try:
            smart_open.open = fake_open
            for m in uuid_mods:
                m.uuid = fake_uuid
            config.place_latency = cfg.get("place_latency", 0.12)
            config.cancel_latency = cfg.get("cancel_latency", 0.17)
            config.update_latency = cfg.get("update_latency", 0.15)
            config.replace_latency = cfg.get("replace_latency", 0.28)
            config.simulated_strategy_isolation = cfg.get("isolation", True)
            config.simulation_available_prices = cfg.get("available_prices", False)
            config.raise_errors = cfg.get("raise_errors", False)
            config.async_place_orders = bool(cfg.get("async"))  # no effect on simulated execution (the package carries the flag)
            config.customer_strategy_ref = "simhost"
            config.hostname = "simhost"
            self._build()
            for cls in self.monitor_classes:
                mon = cls(self)
                self.monitors.append(mon)
                for h in HOOKS:
                    fn = getattr(mon, "on_" + h, None)
                    if fn is not None:
                        self.hooks.setdefault(h, []).append(fn)
            CUR = self
            _dispatch("begin")
            try:
                self.fw.run()
            except core.SimulationAbort:
                raise
            except Exception:
                ei = sys.exc_info()
                if self.inject and self.inject.get("expect_abort") and "injected" in str(ei[1]):
                    self.res.probes["run.aborted_by_injection"] += 1
                else:
                    site = sut_site(ei)
                    if site is None:
                        self.note_harness("".join(traceback.format_exception(*ei)))
                    else:
                        self._record_crash(site, ei, where="run")
                        if "injected" in str(ei[1]) or str(ei[1]) == "scripted":
                            # an exception thrown from a callback escaped the framework: containment failed
                            self.crash["owner"] = "C13"
                            self.crash["where"] = "callback exception not contained"
            _dispatch("end")
        finally:
            CUR = None
            smart_open.open = saved_open
            for m, u in zip(uuid_mods, saved_uuid):
                m.uuid = u
            for k, v in saved_cfg.items():
                setattr(config, k, v)
            if _dt_mod.datetime is not _real_datetime_class:
                self.res.probes["clock.not_restored"] += 1
                _dt_mod.datetime = _real_datetime_class
        res = self.res
        if self.harness_error:
            res.harness_error = self.harness_error
        if self.crash:
            c = self.crash
            if c["owner"] == self.owner or self.owner == "*":
                res.violate(
                    c["owner"] or "C12",
                    "%s.sut-crash" % (c["owner"] or "C12"),
                    "%s:%s" % c["site"],
                    exc=c["exc"],
                    where=c["where"],
                )
            else:
                res.discarded = "sut-crash at %s:%s (owner %s)" % (c["site"][0], c["site"][1], c["owner"])
        pts = [u["pt"] for m in sc["markets"] for u in m["updates"]]
        res.sim_seconds = sum(
            (m["updates"][-1]["pt"] - m["updates"][0]["pt"]) / 1000.0 for m in sc["markets"] if m["updates"]
        )
        res.steps = len(self.update_log)
        return res

    def _build(self):
        F = _F
        sc = self.scenario
        clients_spec = sc.get("clients") or [{}]
        self.clients = []
        for i, cs in enumerate(clients_spec):
            c = F["clients"].SimulatedClient(
                username="client%d" % i,
                transaction_limit=cs.get("limit", 5000),
                commission_base=cs.get("commission", 0.05),
                best_price_execution=cs.get("bpe", True),
                min_bet_validation=cs.get("min_bet_validation", True),
                simulated_full_match=cs.get("full_match", False),
            )
            self.clients.append(c)
        fw = F["FlumineSimulation"](client=self.clients[0])
        for c in self.clients[1:]:
            fw.add_client(c)
        self.fw = fw
        fw.add_logging_control(SyncLoggingControl())
        for cs in sc.get("controls", ()):
            if cs.get("level") == "client":
                fw.add_client_control(self.clients[cs.get("client", 0)], scripted_control_class(True), spec=cs)
            else:
                fw.add_trading_control(scripted_control_class(False), spec=cs)
        for mw in sc.get("middlewares", ()):
            fw.add_market_middleware(ScriptMiddleware(self, mw))
        if sc.get("sports_data"):
            from flumine.markets.middleware import SimulatedSportsDataMiddleware

            fw.add_market_middleware(SimulatedSportsDataMiddleware("raceSubscription", "/sportsdir"))
        Agent = agent_class()
        for ss in sc["strategies"]:
            paths = [marketgen.file_path(sc["markets"][i]) for i in ss["markets"]]
            mf = {"markets": paths}
            if ss.get("event_processing"):
                mf["event_processing"] = True
                if ss.get("event_groups"):
                    mf["event_groups"] = dict(ss["event_groups"])
            if ss.get("listener_kwargs"):
                mf["listener_kwargs"] = dict(ss["listener_kwargs"])
            agent = Agent(
                self,
                ss,
                market_filter=mf,
                name=ss["name"],
                max_order_exposure=ss.get("max_order_exposure", 10),
                max_selection_exposure=ss.get("max_selection_exposure", 100),
                max_market_exposure=ss.get("max_market_exposure"),
                max_trade_count=ss.get("max_trade_count", 1e6),
                max_live_trade_count=ss.get("max_live_trade_count", 1),
                multi_order_trades=ss.get("multi_order_trades", False),
            )
            fw.add_strategy(agent)
            self.agents.append(agent)


_SC = {}


def scripted_control_class(client_level):
    if client_level in _SC:
        return _SC[client_level]
    from flumine.controls import BaseControl

    class ScriptedControl(BaseControl):
        NAME = "SCRIPTED_CLIENT_CONTROL" if client_level else "SCRIPTED_TRADING_CONTROL"

        def __init__(self, flumine, *args, spec=None, **kwargs):
            super().__init__(flumine)
            self.spec = spec or {}

        def _validate(self, order, package_type):
            _dispatch("scripted_control_called")
            sp = self.spec
            if package_type.name in sp.get("kinds", ()) and getattr(order, "_vid", 0) % sp.get("mod", 2) == sp.get("rem", 0):
                self._on_error(order, "scripted refusal")

    _SC[client_level] = ScriptedControl
    return ScriptedControl


class ScriptMiddleware:
    """Scenario-defined extra middleware (C13 fault injection, C20 release observation)."""

    def __init__(self, run, spec):
        self.run = run
        self.spec = spec
        self.calls = []
        self.added = []
        self.removed = []
        self.n = 0

    def __call__(self, market):
        self.n += 1
        self.calls.append((market.market_id, market.market_book.publish_time_epoch))
        _dispatch("strategy_call", self, market, "middleware")
        if self.spec.get("raise_at") == self.n:
            self.run.res.faults["callback_exception.middleware"] += 1
            if self.spec.get("flumine"):
                raise _F["FlumineException"]("injected")
            raise ValueError("injected")

    def add_market(self, market):
        self.added.append(market.market_id)

    def remove_market(self, market):
        self.removed.append(market.market_id)

    @property
    def name(self):
        return self.spec.get("name", "mw")


def run_scenario(scenario, monitor_classes, owner=None) -> core.Result:
    from . import rt

    rt.set_tz(scenario.get("tz"))
    try:
        res = BacktestRun(scenario, monitor_classes, owner=owner).execute()
    finally:
        rt.set_tz(None)
    if scenario.get("tz"):
        res.faults["host.time_zone_not_utc"] += 1
    return res
