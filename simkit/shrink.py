"""Structural delta debugging of World-A scenarios."""
import copy
import time

from .core import ddmin


def _strip_actions(sc):
    s = copy.deepcopy(sc)
    for m in s["markets"]:
        for u in m["updates"]:
            u.pop("acts", None)
            u.pop("oacts", None)
    return s


def _action_sites(sc):
    sites = []
    for mi, m in enumerate(sc["markets"]):
        for ui, u in enumerate(m["updates"]):
            for key in ("acts", "oacts"):
                for strat, acts in (u.get(key) or {}).items():
                    for ai, a in enumerate(acts):
                        sites.append((mi, ui, key, strat, ai))
    return sites


def _with_actions(sc, base, sites):
    s = copy.deepcopy(base)
    for mi, ui, key, strat, ai in sites:
        a = sc["markets"][mi]["updates"][ui][key][strat][ai]
        s["markets"][mi]["updates"][ui].setdefault(key, {}).setdefault(strat, []).append(copy.deepcopy(a))
    return s


def _drop_market(sc, mi):
    s = copy.deepcopy(sc)
    del s["markets"][mi]
    for st in s["strategies"]:
        st["markets"] = [i - (1 if i > mi else 0) for i in st["markets"] if i != mi]
    s["strategies"] = [st for st in s["strategies"] if st["markets"]]
    return s


def shrink_backtest(scenario, test, deadline):
    """Returns a smaller scenario for which test() is still True."""
    sc = scenario
    if not test(sc):
        return scenario
    # 1. strategies
    i = 0
    while len(sc["strategies"]) > 1 and i < len(sc["strategies"]) and time.time() < deadline:
        cand = copy.deepcopy(sc)
        del cand["strategies"][i]
        if test(cand):
            sc = cand
        else:
            i += 1
    # 2. markets
    i = 0
    while len(sc["markets"]) > 1 and i < len(sc["markets"]) and time.time() < deadline:
        cand = _drop_market(sc, i)
        if cand["strategies"] and test(cand):
            sc = cand
        else:
            i += 1
    # 3. actions
    base = _strip_actions(sc)
    sites = _action_sites(sc)
    src = sc
    kept = ddmin(sites, lambda sub: test(_with_actions(src, base, sub)), deadline)
    sc = _with_actions(src, base, kept)
    # 3b. unwrap transactions / drop sub-actions
    for mi, m in enumerate(sc["markets"]):
        for ui, u in enumerate(m["updates"]):
            for key in ("acts", "oacts"):
                for strat, acts in (u.get(key) or {}).items():
                    for ai, a in enumerate(acts):
                        if a.get("op") == "txn" and time.time() < deadline:
                            subs = a["acts"]

                            def t2(sub, mi=mi, ui=ui, key=key, strat=strat, ai=ai):
                                c = copy.deepcopy(sc)
                                c["markets"][mi]["updates"][ui][key][strat][ai]["acts"] = sub
                                c["markets"][mi]["updates"][ui][key][strat][ai].pop("exec_after", None)
                                return test(c)

                            keep = ddmin(subs, t2, deadline)
                            if len(keep) < len(subs):
                                a["acts"] = keep
                                a.pop("exec_after", None)
    # 4. updates (never the first of a market)
    for mi in range(len(sc["markets"])):
        if time.time() >= deadline:
            break
        ups = sc["markets"][mi]["updates"]

        def t3(sub, mi=mi):
            c = copy.deepcopy(sc)
            c["markets"][mi]["updates"] = sub
            return test(c)

        kept_u = ddmin(ups, t3, deadline, keep_first=1)
        sc = copy.deepcopy(sc)
        sc["markets"][mi]["updates"] = kept_u
    # 5. config knobs back to defaults
    for k in list((sc.get("cfg") or {}).keys()):
        if time.time() >= deadline:
            break
        cand = copy.deepcopy(sc)
        del cand["cfg"][k]
        if test(cand):
            sc = cand
    # 6. strategy knobs
    for si, st in enumerate(sc["strategies"]):
        for k in list(st.keys()):
            if k in ("name", "markets", "client") or time.time() >= deadline:
                continue
            cand = copy.deepcopy(sc)
            del cand["strategies"][si][k]
            if test(cand):
                sc = cand
    return sc
