import random
"""Scenario generator for World B (live): small markets, request scripts, exchange-side events, fault plans,
scheduler tapes, crash points."""
from . import marketgen
from .marketgen import r2

FAIL_CODES = ["ERROR_IN_ORDER", "BET_TAKEN_OR_LAPSED", "MARKET_SUSPENDED", "RELATED_ACTION_FAILED", "INSUFFICIENT_FUNDS"]
TRANSPORT = ["conn_before", "conn_after", "http503", "badjson", "aping"]


def gen_actions(rng, market, name, mix):
    """place / cancel / update / replace scripts on far-away prices (orders rest unless the exchange fills them)."""
    n_created = 0
    for j, upd in enumerate(market["updates"]):
        if upd["st"] != "OPEN" or rng.random() > mix["p_act"]:
            continue
        acts = []
        n = rng.choice([1, 1, 2, 3]) if mix.get("packages") else 1
        if n_created == 0 or rng.random() < mix["p_place"]:
            subs = []
            for _ in range(n):
                sel = rng.choice(market["runners"])
                side = rng.choice(["BACK", "LAY"])
                a = {"op": "place", "sel": sel, "side": side, "type": "LIMIT", "price": rng.choice([900.0, 950.0, 1000.0]) if side == "BACK" else rng.choice([1.01, 1.02, 1.03]), "size": r2(rng.uniform(2, 9)), "persistence": rng.choice(["LAPSE", "PERSIST"])}
                if rng.random() < mix.get("p_sp", 0.0):
                    a = {"op": "place", "sel": sel, "side": side, "type": rng.choice(["LOC", "MOC"]), "liability": r2(rng.uniform(10, 30)), "price": 2.0}
                if rng.random() < mix.get("p_fok", 0.0):
                    a["tif"] = "FILL_OR_KILL"
                subs.append(a)
                n_created += 1
            acts.append({"op": "txn", "acts": subs} if len(subs) > 1 else subs[0])
        else:
            kind = rng.choices(["cancel", "update", "replace"], [mix["w_cancel"], mix["w_update"], mix["w_replace"]])[0]
            subs = []
            for k in range(n):
                ref = {"live": k} if rng.random() < 0.8 else rng.choice([-1, -2])
                a = {"op": kind, "order": ref}
                if kind == "cancel" and rng.random() < 0.3:
                    a["red"] = rng.choice([0.5, 1.0, 1.5, "f0.5", "f0.6", "f0.8"])
                if kind == "update":
                    a["pt"] = rng.choice(["PERSIST", "LAPSE", "MARKET_ON_CLOSE"])
                if kind == "replace":
                    a["price"] = rng.choice([800.0, 850.0, 1.05, 1.06, 700.0])
                subs.append(a)
            acts.append({"op": "txn", "acts": subs} if len(subs) > 1 else subs[0])
        key = "oacts" if rng.random() < mix.get("p_oacts", 0.15) else "acts"
        upd.setdefault(key, {}).setdefault(name, []).extend(acts)


def gen_live(rng, flavour):
    n_markets = 1 if rng.random() < 0.75 else 2
    knobs = {"n_updates": (4, rng.choice([6, 10, 14])), "p_removal": 0.0, "p_suspend": rng.choice([0.0, 0.0, 0.6]), "p_inplay": 0.0, "p_close": 0.0, "n_runners": (2, 3), "spacing": "normal"}
    markets = [marketgen.gen_market(rng, i, knobs) for i in range(n_markets)]
    side = random.Random("live-extras|%s" % markets[0]["updates"][0]["pt"])  # side generator: the main stream stays as it was
    if flavour == "C11" and side.random() < 0.25:
        # one market closes part-way (it stays registered: a live framework keeps closed markets for an hour)
        m = markets[side.randrange(n_markets)]
        k0 = side.randint(2, len(m["updates"]) - 1)
        closing = marketgen._closing_update(side, m, m["updates"][k0 - 1], m["updates"][k0]["pt"], dict(marketgen.DEFAULT_KNOBS))
        m["updates"][k0] = closing
        del m["updates"][k0 + 1:]
        closed_idx = markets.index(m)
    else:
        closed_idx = None
    n_strat = rng.choice([1, 1, 2])
    sc = {
        "world": "B",
        "cfg": {"async": rng.random() < 0.3, "max_workers": rng.choice([32, 32, 1, 2])},
        "clients": [{"limit": 5000}],
        "markets": markets,
        "strategies": [{"name": "L%d" % s, "markets": list(range(n_markets)), "client": 0} for s in range(n_strat)],
        "tape": [rng.randrange(1_000_000) for _ in range(rng.choice([40, 80, 140]))],
        "duplicates": rng.random() < 0.5,
        "idle_ticks": rng.random() < 0.4,
        "image_with_complete": rng.random() < 0.7,
        "max_steps": 600,
    }
    mix = {"p_act": rng.choice([0.6, 0.9]), "p_place": rng.choice([0.4, 0.6]), "w_cancel": 2, "w_update": 1, "w_replace": 2, "packages": rng.random() < 0.6, "p_sp": rng.choice([0.0, 0.1, 0.3]), "p_fok": rng.choice([0.0, 0.1])}
    for st in sc["strategies"]:
        for mi in st["markets"]:
            gen_actions(rng, markets[mi], st["name"], mix)
    sc["exchange_events"] = [{"type": rng.choice(["fill", "fill", "fill", "lapse"]), "bet": rng.randrange(6), "size": rng.choice([0.5, 1.0, 2.0, 50.0])} for _ in range(rng.choice([0, 1, 2, 4, 6]))]
    if closed_idx is not None and side.random() < 0.6:
        # a bet of another instance shows up for the closed market (late in the session)
        sc["exchange_events"].append({"type": "sibling_bet", "market": closed_idx, "strategy": side.randrange(n_strat), "runner": side.randrange(3), "side": side.choice(["BACK", "LAY"])})
    if flavour == "C11" and side.random() < 0.3:
        for _ in range(side.choice([1, 2])):
            sc["exchange_events"].insert(side.randint(0, len(sc["exchange_events"])), {"type": "sibling_bet", "market": side.randrange(n_markets), "strategy": side.randrange(n_strat), "runner": side.randrange(3), "side": side.choice(["BACK", "LAY"])})
    faults = {}
    if flavour == "C11":
        # only replies the bet table justifies; some placements match immediately
        for n in range(1, 25):
            if rng.random() < 0.2:
                faults[str(n)] = {"match_on_place": rng.choice([0.5, 1.0])}
        if rng.random() < 0.5:
            k = rng.choice([1, 1, 2])
            sc["crash_at"] = sorted(rng.sample(range(5, 120), k))
            sc["script_after_restart"] = False
            if n_strat > 1 and rng.random() < 0.3:
                sc["missing_after_restart"] = [sc["strategies"][-1]["name"]]
        if rng.random() < 0.3:
            sc["foreign_bets"] = rng.randint(1, 2)
    else:
        for n in range(1, 30):
            if rng.random() < 0.45:
                plan = {}
                c = rng.random()
                if c < 0.45:
                    plan["reports"] = [rng.choice(["SUCCESS", "SUCCESS", "TIMEOUT"] + ["FAILURE:" + x for x in FAIL_CODES]) for _ in range(3)]
                    if rng.random() < 0.3:
                        plan["place_reports"] = [rng.choice([None, "FAILURE:ERROR_IN_ORDER"]) for _ in range(3)]
                elif c < 0.8:
                    plan["transport"] = rng.choice(TRANSPORT)
                else:
                    plan["shuffle"] = True
                    if rng.random() < 0.5:
                        plan["omit"] = [rng.randrange(3)]
                if rng.random() < 0.2:
                    plan["timeout_places"] = True
                faults[str(n)] = plan
        # runs of transport faults to exhaust the retry budget
        if rng.random() < 0.25:
            start = rng.randint(1, 6)
            kind = rng.choice(TRANSPORT)
            for n in range(start, start + rng.choice([3, 4, 5])):
                faults[str(n)] = {"transport": kind}
    sc["faults"] = faults
    if side.random() < 0.4:
        sc["split_ocm"] = True  # the order stream reports the bets of one request in separate messages
    if side.random() < 0.2:
        sc["yield_pct"] = side.choice([30, 70])  # a pool thread may be suspended between two instruction reports of a reply
    if side.random() < 0.2:
        sc["main_yield_pct"] = side.choice([30, 70])  # pool threads may run between two requests of one main-loop handler
    if side.random() < 0.35:
        # nothing orders the pool thread and the submitting thread: in these sessions a submitted request may run - up to
        # the processing of its reply - before submit() returns to the main loop
        sc["preempt_pct"] = side.choice([25, 60, 100])
    _tz(sc)
    return sc


def _tz(sc):
    from . import rt

    tz = rt.tz_for("live|%s|%d" % (sc["markets"][0]["updates"][0]["pt"], len(sc["markets"][0]["updates"])))
    if tz:
        sc["tz"] = tz


def gen_live_closure(rng):
    """Live sessions for C20: several markets closing one after another with the clock moving past one hour."""
    n_markets = rng.choice([2, 3, 4])
    markets = []
    t = marketgen.T0_MS + rng.randint(0, 1_000_000)
    for i in range(n_markets):
        knobs = {"n_updates": (2, rng.choice([3, 5])), "p_removal": 0.0, "p_suspend": 0.0, "p_inplay": 0.0, "p_close": 1.0, "p_repeat_close": rng.choice([0.0, 0.4]), "p_reopen_after_close": rng.choice([0.0, 0.3]), "n_runners": (2, 3), "spacing": rng.choice(["normal", "slow"])}
        m = marketgen.gen_market(rng, i, knobs, t0=t)
        markets.append(m)
        t = m["updates"][-1]["pt"] + rng.choice([600_000, 3_000_000, 3_599_000, 3_601_000, 3_660_000, 7_200_000, 10_000])
    strategies = [{"name": "L0", "markets": list(range(n_markets)), "client": 0}]
    if rng.random() < 0.6:
        strategies.append({"name": "E1", "markets": list(range(n_markets)), "client": 0, "empty_filter": True})
    if rng.random() < 0.3:
        strategies.append({"name": "L2", "markets": list(range(n_markets)), "client": 0})
    mode = rng.random()
    if mode < 0.3:
        # raw-data recorder mode: dict updates through a DataStream (with or without a market-book strategy beside it)
        strategies.append({"name": "R3", "markets": list(range(n_markets)), "client": 0, "data_stream": True})
        if mode < 0.12:
            strategies = [s_ for s_ in strategies if s_["name"] not in ("L0", "L2")]
    sc = {"world": "B", "cfg": {"max_workers": 32}, "clients": [{"limit": 5000}], "markets": markets, "strategies": strategies, "tape": [0] * 400, "max_steps": 2000, "faults": {}, "exchange_events": []}
    mix = {"p_act": rng.choice([0.0, 0.5]), "p_place": 0.8, "w_cancel": 1, "w_update": 0, "w_replace": 0, "packages": False}
    if any(s_["name"] == "L0" for s_ in strategies):
        for mi in range(n_markets):
            gen_actions(rng, markets[mi], "L0", mix)
    _tz(sc)
    return sc


# --------------------------------------------------------------------------- C12: systematic fault enumeration
OUTCOMES = ["SUCCESS", "TIMEOUT"] + ["FAILURE:" + x for x in FAIL_CODES]
KINDS = ["place", "cancel", "update", "replace"]


def c12_space():
    """(kind, n_orders, outcome assignment index, transport kind index or -1, faulted attempts 0..4, completed-between flag)"""
    space = []
    for kind in KINDS:
        for n in (1, 2):
            for oi in range(len(OUTCOMES) ** n):
                for ti in range(-1, len(TRANSPORT)):
                    for att in ((0,) if ti < 0 else (1, 2, 3, 4)):
                        for comp in (0, 1):
                            space.append((kind, n, oi, ti, att, comp))
    return space


_SPACE = None


def c12_space_size():
    global _SPACE
    if _SPACE is None:
        _SPACE = c12_space()
    return len(_SPACE)


def gen_c12_systematic(rng, idx):
    """One cell of the fault space, executed under a seeded schedule."""
    c12_space_size()
    kind, n, oi, ti, att, comp = _SPACE[idx % len(_SPACE)]
    outs = []
    x = oi
    for _ in range(n):
        outs.append(OUTCOMES[x % len(OUTCOMES)])
        x //= len(OUTCOMES)
    knobs = {"n_updates": (7, 8), "p_removal": 0.0, "p_suspend": 0.0, "p_inplay": 0.0, "p_close": 0.0, "n_runners": (2, 3), "spacing": "normal"}
    m = marketgen.gen_market(rng, 0, knobs)
    places = []
    for k in range(n):
        side = "BACK" if k % 2 == 0 else "LAY"
        places.append({"op": "place", "sel": m["runners"][k % len(m["runners"])], "side": side, "type": "LIMIT", "price": 900.0 if side == "BACK" else 1.02, "size": r2(rng.choice([2.0, 3.0, 4.5])), "persistence": "LAPSE"})
    m["updates"][1]["acts"] = {"L0": [{"op": "txn", "acts": places} if n > 1 else places[0]]}
    target_call = 1
    if kind != "place":
        reqs = []
        for k in range(n):
            a = {"op": kind, "order": k}
            if kind == "update":
                a["pt"] = "PERSIST"
            if kind == "replace":
                a["price"] = 850.0 if k % 2 == 0 else 1.05
            if kind == "cancel" and rng.random() < 0.3:
                a["red"] = 1.0
            reqs.append(a)
        m["updates"][4]["acts"] = {"L0": [{"op": "txn", "acts": reqs} if n > 1 else reqs[0]]}
        target_call = 2
    faults = {}
    for a in range(att):
        faults[str(target_call + a)] = {"transport": TRANSPORT[ti]}
    plan = {"reports": outs}
    if kind == "cancel" and rng.random() < 0.3:
        plan["shuffle"] = True
    faults[str(target_call + att)] = plan
    sc = {
        "world": "B",
        "cfg": {"async": False, "max_workers": rng.choice([32, 1])},
        "clients": [{"limit": 5000}],
        "markets": [m],
        "strategies": [{"name": "L0", "markets": [0], "client": 0}],
        "tape": [rng.randrange(1_000_000) for _ in range(70)],
        "duplicates": rng.random() < 0.3,
        "idle_ticks": False,
        "image_with_complete": True,
        "max_steps": 600,
        "faults": faults,
        "exchange_events": ([{"type": rng.choice(["fill", "lapse"]), "bet": 0, "size": 50.0}] if comp else []),
        "cell": [kind, n, outs, TRANSPORT[ti] if ti >= 0 else None, att, comp],
    }
    return sc


def gen_live_betdaq(rng):
    """World B session trading through a Betdaq client (method-level API stub, polling diffs)."""
    knobs = {"n_updates": (5, rng.choice([8, 12])), "p_removal": 0.0, "p_suspend": 0.0, "p_inplay": 0.0, "p_close": 0.0, "n_runners": (2, 3), "spacing": "normal"}
    m = marketgen.gen_market(rng, 0, knobs)
    prices = [1.5, 2.0, 2.5, 3.0, 3.5, 5.0, 10.0]
    n_created = 0
    for j, upd in enumerate(m["updates"]):
        if rng.random() > 0.85:
            continue
        acts = []
        n = rng.choice([1, 1, 2, 3, 12]) if rng.random() < 0.5 else 1
        if n_created == 0 or rng.random() < 0.5:
            subs = []
            for _ in range(n):
                a = {"op": "place", "betdaq": True, "sel": rng.choice(m["runners"]), "side": rng.choice(["BACK", "LAY"]), "price": rng.choice(prices), "size": r2(rng.uniform(1, 9))}
                if rng.random() < 0.08:
                    a["price"] = rng.choice([2.003, 1.005])
                if rng.random() < 0.1:
                    a["force"] = True
                    a["price"] = rng.choice(prices)
                subs.append(a)
                n_created += 1
            acts.append({"op": "txn", "acts": subs} if len(subs) > 1 else subs[0])
        else:
            kind = rng.choice(["cancel", "cancel", "update", "update", "replace"])
            subs = []
            for k in range(min(n, 3)):
                a = {"op": kind, "order": rng.choice([{"live": k}, -1, -2, rng.randrange(max(1, n_created))])}
                if kind == "update":
                    a.update(betdaq=True, size_delta=rng.choice([0.0, 1.0, -0.5]), new_price=rng.choice(prices + [None]))
                if kind == "replace":
                    a["price"] = rng.choice(prices)
                if kind == "cancel" and rng.random() < 0.15:
                    a["red"] = 1.0
                if rng.random() < 0.1:
                    a["force"] = True
                subs.append(a)
            acts.append({"op": "txn", "acts": subs, "propagate": rng.random() < 0.2} if len(subs) > 1 else subs[0])
        upd.setdefault("acts", {}).setdefault("B0", []).extend(acts)
    faults = {}
    for n in range(1, 20):
        x = rng.random()
        if x < 0.12:
            faults[str(n)] = {"transport": rng.choice(["conn_before", "conn_after"])}
        elif x < 0.3:
            faults[str(n)] = {"reports": [rng.choice(["SUCCESS", "FAILURE:X"]) for _ in range(12)]}
    return {
        "world": "B",
        "betdaq": True,
        "cfg": {"max_workers": 32},
        "clients": [{"limit": 5000}, {"exchange": "betdaq", "limit": rng.choice([5000, 5000, 3])}],
        "markets": [m],
        "strategies": [{"name": "B0", "markets": [0], "client": 1, "max_order_exposure": rng.choice([1000, 5.0]), "max_selection_exposure": rng.choice([10000, 12.0])}],
        "tape": [rng.randrange(1_000_000) for _ in range(rng.choice([60, 120]))],
        "max_steps": 600,
        "faults": faults,
        "exchange_events": [{"type": "fill", "bet": rng.randrange(5), "size": rng.choice([0.5, 2.0, 50.0])} for _ in range(rng.choice([0, 1, 3]))],
        "controls": ([{"level": "trading", "mod": 2, "rem": rng.randrange(2), "kinds": rng.sample(["PLACE", "CANCEL", "UPDATE"], 2)}] if rng.random() < 0.4 else []),
    }


def gen_c12_async_retry(rng):
    """Directed: an asynchronous PLACE package of 2-3 bets whose attempts fail in transport AFTER the exchange took the
    request, with the order stream reporting the bets one message at a time - so the stream acknowledges part of the
    package between two attempts - and enough further faults to use up the retry budget (and one more)."""
    knobs = {"n_updates": (7, 9), "p_removal": 0.0, "p_suspend": 0.0, "p_inplay": 0.0, "p_close": 0.0, "n_runners": (2, 3), "spacing": "normal"}
    m = marketgen.gen_market(rng, 0, knobs)
    n = rng.choice([2, 2, 3])
    places = []
    for k in range(n):
        side = "BACK" if k % 2 == 0 else "LAY"
        places.append({"op": "place", "sel": m["runners"][k % len(m["runners"])], "side": side, "type": "LIMIT", "price": 900.0 if side == "BACK" else 1.02, "size": r2(rng.choice([2.0, 3.0, 4.5])), "persistence": "LAPSE"})
    m["updates"][1]["acts"] = {"L0": [{"op": "txn", "acts": places}]}
    faults = {}
    for a in range(rng.choice([1, 2, 4, 5, 6, 7])):
        faults[str(1 + a)] = {"transport": rng.choice(["conn_after", "http503", "badjson", "aping", "conn_after", "conn_before"])}
    sc = {
        "world": "B",
        "cfg": {"async": rng.random() < 0.8, "max_workers": rng.choice([32, 1])},
        "clients": [{"limit": 5000}],
        "markets": [m],
        "strategies": [{"name": "L0", "markets": [0], "client": 0}],
        "tape": [rng.randrange(1_000_000) for _ in range(90)],
        "duplicates": rng.random() < 0.3,
        "idle_ticks": False,
        "image_with_complete": True,
        "max_steps": 600,
        "faults": faults,
        "exchange_events": [],
        "split_ocm": True,
        "directed": "async-place-retries-with-partial-acknowledgement",
    }
    if rng.random() < 0.3:
        sc["preempt_pct"] = 25
    return sc


def gen_c03_async_retry_overlap(rng):
    """Directed (round 21, C03-l): an asynchronous PLACE whose every attempt fails in transport AFTER the exchange took the
    request, the order stream acknowledging the bets during the back-off - and the strategy sending a cancel / update /
    replace for an acknowledged bet while the package is still retrying, so that the exhausted-retries recovery
    (`reset_orders(complete=True)`) runs over an order with its own request in flight."""
    sc = gen_c12_async_retry(rng)
    m = sc["markets"][0]
    n = len(m["updates"][1]["acts"]["L0"][0]["acts"])
    for j in range(2, min(6, len(m["updates"]) - 1)):
        if rng.random() < 0.7:
            k = rng.randrange(n)
            price = 850.0 if k % 2 == 0 else 1.05
            act = rng.choice([{"op": "cancel", "order": k, "red": rng.choice([0.5, 1.0])}, {"op": "cancel", "order": k}, {"op": "update", "order": k, "pt": "PERSIST"}, {"op": "replace", "order": k, "price": price}])
            m["updates"][j]["acts"] = {"L0": [act]}
    sc["cfg"]["async"] = True
    faults = {}
    for a in range(rng.choice([3, 4, 4, 5])):
        faults[str(1 + a)] = {"transport": rng.choice(["conn_after", "conn_after", "conn_after", "http503", "badjson"])}
    sc["faults"] = faults
    sc["directed"] = "async-place-retries-exhausted-while-a-modification-is-in-flight"
    return sc


def gen_c03_overlap(rng):
    """Directed: two resting bets X and Y; the cancel of X comes back with its report missing (or is a plain success); later
    two requests are in flight at once - a replace / update / cancel of X and a cancel of Y, sent as separate packages in the
    same handler - so that the reply to one package is processed while the other order's request is outstanding."""
    knobs = {"n_updates": (9, 11), "p_removal": 0.0, "p_suspend": 0.0, "p_inplay": 0.0, "p_close": 0.0, "n_runners": (2, 3), "spacing": "normal"}
    m = marketgen.gen_market(rng, 0, knobs)
    places = []
    for k in range(2):
        side = "BACK" if k % 2 == 0 else "LAY"
        places.append({"op": "place", "sel": m["runners"][k % len(m["runners"])], "side": side, "type": "LIMIT", "price": 900.0 if side == "BACK" else 1.02, "size": r2(rng.choice([2.0, 3.0, 4.5])), "persistence": "LAPSE"})
    m["updates"][1]["acts"] = {"L0": [{"op": "txn", "acts": places}]}
    j = rng.choice([0, 1])  # the order whose cancel report goes missing
    m["updates"][3]["acts"] = {"L0": [{"op": "txn", "acts": [{"op": "cancel", "order": 0, "red": rng.choice([0.5, 1.0])}, {"op": "cancel", "order": 1, "red": 0.5}]}]}
    first = rng.choice([{"op": "replace", "order": j, "price": 850.0 if j == 0 else 1.05}, {"op": "update", "order": j, "pt": "PERSIST"}, {"op": "cancel", "order": j, "red": 0.5}])
    both = [first, {"op": "cancel", "order": 1 - j, "red": 0.5}]
    if rng.random() < 0.5:
        both.reverse()
    m["updates"][5]["acts"] = {"L0": both}
    m["updates"][6]["acts"] = {"L0": [{"op": rng.choice(["cancel", "replace"]), "order": j, "price": 800.0 if j == 0 else 1.06}]}
    m["updates"][7]["acts"] = {"L0": [{"op": "cancel", "order": 0}, {"op": "cancel", "order": 1}]}
    faults = {}
    if rng.random() < 0.7:
        faults["2"] = {"omit": [j]}  # (the exchange double only drops a report from a reply that carries several)
    sc = {
        "world": "B",
        "cfg": {"async": False, "max_workers": 32},
        "clients": [{"limit": 5000}],
        "markets": [m],
        "strategies": [{"name": "L0", "markets": [0], "client": 0}],
        "tape": [rng.randrange(1_000_000) for _ in range(100)],
        "duplicates": rng.random() < 0.3,
        "idle_ticks": False,
        "image_with_complete": True,
        "max_steps": 600,
        "faults": faults,
        "exchange_events": [],
        "directed": "report-missing-then-two-requests-in-flight",
    }
    if rng.random() < 0.3:
        sc["split_ocm"] = True
    return sc


def gen_cancel_race(rng):
    """Directed: two resting bets cancelled in ONE package while the exchange part-matches one of them just before; the pool
    thread may be suspended between the two instruction reports (yield_pct), so the order-stream messages about the fill and
    about the completed bet can be processed by the main loop in the middle of the reply."""
    knobs = {"n_updates": (8, 10), "p_removal": 0.0, "p_suspend": 0.0, "p_inplay": 0.0, "p_close": 0.0, "n_runners": (2, 3), "spacing": "normal"}
    m = marketgen.gen_market(rng, 0, knobs)
    places = []
    for k in range(rng.choice([2, 2, 3])):
        side = "BACK" if k % 2 == 0 else "LAY"
        places.append({"op": "place", "sel": m["runners"][k % len(m["runners"])], "side": side, "type": "LIMIT", "price": 900.0 if side == "BACK" else 1.02, "size": r2(rng.choice([2.0, 3.0, 4.5])), "persistence": "LAPSE"})
    m["updates"][1]["acts"] = {"L0": [{"op": "txn", "acts": places}]}
    cancels = [{"op": "cancel", "order": k} for k in range(len(places))]
    if rng.random() < 0.3:
        cancels[0]["red"] = 1.0
    m["updates"][rng.choice([3, 4])]["acts"] = {"L0": [{"op": "txn", "acts": cancels}]}
    sc = {
        "world": "B",
        "cfg": {"async": False, "max_workers": 32},
        "clients": [{"limit": 5000}],
        "markets": [m],
        "strategies": [{"name": "L0", "markets": [0], "client": 0, "max_live_trade_count": 1}],
        "tape": [rng.randrange(1_000_000) for _ in range(90)],
        "duplicates": rng.random() < 0.2,
        "idle_ticks": False,
        "image_with_complete": True,
        "max_steps": 600,
        "faults": {},
        "exchange_events": [{"type": "fill", "bet": rng.randrange(len(places)), "size": rng.choice([0.25, 0.5, 0.5])} for _ in range(rng.choice([2, 4, 6]))],
        "yield_pct": 70,
        "stream_lag_steps": rng.choice([0, 4, 8, 12]),
        "directed": "package-cancel-with-a-partial-match-and-stream-messages-between-the-reports",
    }
    return sc


def gen_replace_race(rng):
    """Directed: two or three resting bets replaced in ONE package; the exchange matches the first replacement the instant it is
    placed, and the pool thread may be suspended between the instruction reports, so the order-stream message showing that
    replacement complete can be processed before the handler has finished."""
    knobs = {"n_updates": (8, 10), "p_removal": 0.0, "p_suspend": 0.0, "p_inplay": 0.0, "p_close": 0.0, "n_runners": (2, 3), "spacing": "normal"}
    m = marketgen.gen_market(rng, 0, knobs)
    places = []
    n = rng.choice([2, 2, 3])
    for k in range(n):
        side = "BACK" if k % 2 == 0 else "LAY"
        places.append({"op": "place", "sel": m["runners"][k % len(m["runners"])], "side": side, "type": "LIMIT", "price": 900.0 if side == "BACK" else 1.02, "size": r2(rng.choice([2.0, 3.0, 4.5])), "persistence": "LAPSE"})
    m["updates"][1]["acts"] = {"L0": [{"op": "txn", "acts": places}]}
    m["updates"][rng.choice([3, 4])]["acts"] = {"L0": [{"op": "txn", "acts": [{"op": "replace", "order": k, "price": 850.0 if k % 2 == 0 else 1.05} for k in range(n)]}]}
    return {
        "world": "B",
        "cfg": {"async": False, "max_workers": 32},
        "clients": [{"limit": 5000}],
        "markets": [m],
        "strategies": [{"name": "L0", "markets": [0], "client": 0}],
        "tape": [rng.randrange(1_000_000) for _ in range(90)],
        "duplicates": rng.random() < 0.2,
        "idle_ticks": False,
        "image_with_complete": True,
        "max_steps": 600,
        "faults": {"2": {"match_on_place": rng.choice([1.0, 1.0, 0.5]), "match_instructions": [0] if rng.random() < 0.7 else [0, 1]}},
        "exchange_events": [],
        "yield_pct": 70,
        "directed": "package-replace-with-a-replacement-matched-at-once",
    }
