"""World B - LiveSim: the real `Flumine.run()` loop, real `BetfairExecution`, real betfairlightweight endpoint /
resources / stream caches, under a seeded scheduler that owns every seam: the handler queue (its get() IS the
scheduler), the execution thread pool (baton-passing real threads), the HTTP session (the network + exchange
double), the order/market stream delivery, sleeps and the clock."""
import datetime as _dt_mod
import io
import json
import queue
import sys
import threading
import traceback
from collections import deque

from . import backtest, core, marketgen, rt
from .backtest import _dispatch, sut_site

_F = {}
_real_datetime_class = _dt_mod.datetime


def _load():
    if _F:
        return _F
    B = backtest._load()
    import betfairlightweight
    import requests
    from flumine import Flumine, clients, config
    from flumine.baseflumine import BaseFlumine
    from flumine.execution import baseexecution, betfairexecution
    from flumine.execution.betfairexecution import BetfairExecution
    from flumine.order import orderpackage as package_mod
    from flumine.events import events
    from flumine.simulation.utils import NewDateTime
    from flumine.streams.orderstream import OrderStream
    from flumine.streams.marketstream import MarketStream
    from flumine.streams.datastream import DataStream
    from flumine.streams.sportsdatastream import SportsDataStream
    from flumine.controls.tradingcontrols import ExecutionValidation
    import flumine.baseflumine as baseflumine_mod

    _F.update(B)
    _F.update(locals())
    _install_live_wrappers()
    return _F


def _install_live_wrappers():
    BF = _F["BaseFlumine"]
    orig_pop = BF.process_order_package
    from flumine.order.trade import Trade

    orig_texit = Trade.__exit__

    def trade_exit(self, *a):
        r = orig_texit(self, *a)
        run = backtest.CUR
        y = getattr(run, "_yield_point", None)
        if y is not None:
            y()
        return r

    Trade.__exit__ = trade_exit

    def process_order_package(self, pkg):
        if backtest.CUR is not None:
            _dispatch("package", pkg)
        return orig_pop(self, pkg)

    BF.process_order_package = process_order_package
    from flumine.execution.betdaqexecution import BetdaqExecution

    for BE, name in [(_F["BetfairExecution"], n) for n in ("execute_place", "execute_cancel", "execute_update", "execute_replace")] + [(BetdaqExecution, n) for n in ("execute_place", "execute_cancel", "execute_update")]:
        orig = getattr(BE, name)

        def make(orig):
            def wrapper(self, pkg, session):
                if backtest.CUR is None:
                    return orig(self, pkg, session)
                _dispatch("exec_before", pkg)
                try:
                    return orig(self, pkg, session)
                finally:
                    _dispatch("exec_after", pkg)

            return wrapper

        setattr(BE, name, make(orig))
    BE = _F["BetfairExecution"]


# --------------------------------------------------------------------------- tasks (baton passing)


class Task:
    def __init__(self, sim, fn, args, label):
        self.sim = sim
        self.fn = fn
        self.args = args
        self.label = label
        self.go = threading.Semaphore(0)
        self.state = "new"  # new | parked:<reason> | done
        self.error = None
        self.wake_at = None
        self.thread = threading.Thread(target=self._run, daemon=True, name="sim-task-%d" % sim.n_tasks)
        self.started = False

    def _run(self):
        self.go.acquire()
        try:
            if self.sim.aborting:
                raise core.SimulationAbort()
            self.fn(*self.args)
        except core.SimulationAbort:
            pass
        except BaseException:
            self.error = sys.exc_info()
        finally:
            self.state = "done"
            self.sim.ctrl.release()

    def park(self, reason):
        self.state = "parked:" + reason
        self.sim.ctrl.release()
        self.go.acquire()
        if self.sim.aborting:
            raise core.SimulationAbort()
        self.state = "running"


class SimPool:
    """Stands in for ThreadPoolExecutor: submit() creates a parked task; the scheduler decides who runs."""

    class _WQ:
        def __init__(self, pool):
            self.pool = pool

        def qsize(self):
            return len(self.pool.sim.waiting)

    def __init__(self, sim, max_workers):
        self.sim = sim
        self._max_workers = max_workers
        self._threads = set()
        self._work_queue = self._WQ(self)

    def submit(self, fn, *args):
        self.sim.submit(fn, args)

    def shutdown(self, wait=True):
        pass


class SimTime:
    """Replaces the `time` module attribute of flumine modules."""

    def __init__(self, sim):
        self.sim = sim

    def time(self):
        return self.sim.now

    def sleep(self, seconds):
        t = self.sim.current_task
        if t is None:
            self.sim.now += seconds
            return
        self.sim.res.probes["live.backoff_sleep"] += 1
        t.wake_at = self.sim.now + seconds
        t.park("sleep")

    def __getattr__(self, item):
        import time as real

        return getattr(real, item)


class FakeResponse:
    def __init__(self, status_code, body):
        self.status_code = status_code
        self.content = body if isinstance(body, bytes) else body.encode()
        self.text = self.content.decode("utf-8", "replace")
        self.headers = {}


class FakeSession:
    def __init__(self, sim):
        self.sim = sim

    def post(self, url, data=None, headers=None, timeout=None):
        return self.sim.network_call(url, data)

    def close(self):
        pass


class FakeRequestsModule:
    """Stands in for the `requests` module inside flumine.execution.baseexecution."""

    def __init__(self, sim, real):
        self._sim = sim
        self._real = real

    def Session(self):
        return FakeSession(self._sim)

    def __getattr__(self, item):
        return getattr(self._real, item)


class SimQueue:
    """Flumine.handler_queue: get() runs the scheduler until an event is due for the main loop."""

    def __init__(self, sim):
        self.sim = sim
        self.q = deque()

    def put(self, event):
        self.q.append(event)

    def get(self, *a, **k):
        try:
            return self.sim.next_event()
        except core.SimulationAbort:
            raise
        except Exception as e:
            # an exception whose innermost frame is harness code is a harness error, never a SUT crash
            tb = traceback.extract_tb(e.__traceback__)
            if tb and "/simkit/" in tb[-1].filename and not self.sim.harness_error:
                self.sim.harness_error = "scheduler: %s: %s at %s:%d" % (type(e).__name__, e, tb[-1].filename.rsplit("/", 1)[-1], tb[-1].lineno)
            raise

    def qsize(self):
        return len(self.q)

    def empty(self):
        return not self.q


# --------------------------------------------------------------------------- exchange double


def ms_iso(ms):
    return _real_datetime_class.utcfromtimestamp(ms / 1000).strftime("%Y-%m-%dT%H:%M:%S.") + "%03dZ" % (ms % 1000)


class Exchange:
    """Bet table + JSON-RPC handlers + ocm emitter. Always consistent with the reports it returns."""

    def __init__(self, sim):
        self.sim = sim
        self.bets = {}  # bet_id -> dict
        self.order = []  # bet ids in creation order
        self.next_id = 300000000000
        self.calls = []  # (method, customerRef, n instructions)
        self.ocm = deque()  # pending order-stream messages (JSON strings)
        self.ocm_ready = deque()  # scheduler step from which the message at the same position may be delivered
        self.clk = 0
        self.last_ocm = None
        self.suspended = False
        self.applied_refs = set()
        self.suspended_markets = {}

    # -- helpers
    def _pt(self):
        return int(self.sim.now * 1000)

    def emit(self, bets, full_image=False, ct=None):
        if not full_image and ct is None and len(bets) > 1 and self.sim.scenario.get("split_ocm"):
            # the order stream reports each bet in a message of its own (nothing promises that the bets of one request
            # arrive together): the scheduler may run other things between the messages
            self.sim.res.faults["order_stream.one_message_per_bet"] += 1
            for b in bets:
                self.emit([b])
            return
        by = {}
        for b in bets:
            by.setdefault(b["market_id"], {}).setdefault((b["selection_id"], b["handicap"]), []).append(self._uo(b))
        oc = []
        for mid, runners in by.items():
            orc = []
            for (sel, hc), uo in runners.items():
                r = {"id": sel, "uo": uo}
                if hc:
                    r["hc"] = hc
                if full_image:
                    r["fullImage"] = True
                orc.append(r)
            o = {"id": mid, "orc": orc}
            if full_image:
                o["fullImage"] = True
            oc.append(o)
        self.clk += 1
        msg = {"op": "ocm", "id": self.sim.order_stream_id, "clk": "o%d" % self.clk, "pt": self._pt(), "oc": oc}
        if ct:
            msg["ct"] = ct
            msg["initialClk"] = "i%d" % self.clk
        self.ocm.append(json.dumps(msg))
        # order-stream latency (scenario knob stream_lag_steps): the message becomes deliverable only some scheduler steps later
        self.ocm_ready.append(getattr(self.sim, "step", 0) + int(self.sim.scenario.get("stream_lag_steps", 0)))

    def _uo(self, b):
        d = {
            "id": b["bet_id"],
            "p": b["price"],
            "s": b["size"],
            "side": "B" if b["side"] == "BACK" else "L",
            "status": "EC" if b["complete"] else "E",
            "pt": {"LAPSE": "L", "PERSIST": "P", "MARKET_ON_CLOSE": "MOC"}.get(b["persistence"], "L"),
            "ot": {"LIMIT": "L", "LIMIT_ON_CLOSE": "LOC", "MARKET_ON_CLOSE": "MOC"}[b["order_type"]],
            "pd": b["placed"],
            "sm": b["matched"],
            "sr": b["remaining"],
            "sl": b["lapsed"],
            "sc": b["cancelled"],
            "sv": b["voided"],
            "rfo": b["ref"],
            "rfs": b["strategy_ref"],
            "avp": b["avp"],
        }
        if b.get("bsp_liability") is not None:
            d["bsp"] = b["bsp_liability"]
        return d

    def image(self, include_complete=True):
        bets = [self.bets[i] for i in self.order if include_complete or not self.bets[i]["complete"]]
        self.emit(bets, full_image=True, ct="SUB_IMAGE")

    # -- exchange side events
    def fill(self, bet_id, size, price=None):
        b = self.bets.get(bet_id)
        if b is None or b["complete"] or b["remaining"] <= 0:
            return False
        x = round(min(size, b["remaining"]), 2)
        p = price if price is not None else b["price"]
        tot = b["matched"] * (b["avp"] or 0) + x * p
        b["matched"] = round(b["matched"] + x, 2)
        b["avp"] = round(tot / b["matched"], 2) if b["matched"] else 0.0
        b["remaining"] = round(b["remaining"] - x, 2)
        if b["remaining"] == 0:
            b["complete"] = True
        self.emit([b])
        return True

    def lapse(self, bet_id):
        b = self.bets.get(bet_id)
        if b is None or b["complete"]:
            return False
        b["lapsed"] = round(b["lapsed"] + b["remaining"], 2)
        b["remaining"] = 0.0
        b["complete"] = True
        self.emit([b])
        return True

    # -- JSON-RPC
    def handle(self, request, plan):
        method = request["method"].split("/")[-1]
        params = request["params"]
        self.calls.append((method, params.get("customerRef"), len(params.get("instructions", []))))
        fn = getattr(self, "_" + method)
        result = fn(params, plan or {})
        return {"jsonrpc": "2.0", "result": result, "id": request.get("id", 1)}

    def _outcome(self, plan, i, default="SUCCESS"):
        outs = plan.get("reports")
        if outs and i < len(outs) and outs[i]:
            return outs[i]
        return default

    def _placeOrders(self, params, plan):
        mid = params["marketId"]
        reports = []
        changed = []
        ref = params.get("customerRef")
        if ref is not None:
            if ref in self.applied_refs:
                # the exchange de-duplicates re-submissions by customerRef (the response of the first one was lost)
                self.sim.res.probes["live.duplicate_submission_rejected"] += 1
                return {"status": "FAILURE", "errorCode": "DUPLICATE_TRANSACTION", "marketId": mid, "instructionReports": [], "customerRef": ref}
            self.applied_refs.add(ref)
        for i, ins in enumerate(params["instructions"]):
            out = self._outcome(plan, i, "FAILURE:MARKET_SUSPENDED" if (self.suspended or self.suspended_markets.get(mid)) else "SUCCESS")
            if self.suspended_markets.get(mid) and out.startswith("SUCCESS"):
                out = "FAILURE:MARKET_SUSPENDED"  # the table wins: nothing is placed on a suspended market
            rep = {"instruction": ins}
            if out.startswith("SUCCESS"):
                b = self._new_bet(mid, ins, params)
                frac = plan.get("match_on_place", 0.0)
                if frac and b["order_type"] == "LIMIT":
                    x = round(b["size"] * frac, 2)
                    b["matched"], b["avp"], b["remaining"] = x, b["price"], round(b["size"] - x, 2)
                    if b["remaining"] == 0:
                        b["complete"] = True
                lo = ins.get("limitOrder") or {}
                if lo.get("timeInForce") == "FILL_OR_KILL" and not b["complete"]:
                    b["cancelled"] = b["remaining"]
                    b["remaining"] = 0.0
                    b["complete"] = True
                changed.append(b)
                rep.update(status="SUCCESS", betId=b["bet_id"], placedDate=ms_iso(b["placed"]), averagePriceMatched=b["avp"], sizeMatched=b["matched"])
                if params.get("async"):
                    rep.update(orderStatus="PENDING")
                    rep.pop("betId")
                    rep.pop("placedDate")
                else:
                    rep["orderStatus"] = ("EXPIRED" if lo.get("timeInForce") == "FILL_OR_KILL" and b["matched"] == 0 else "EXECUTION_COMPLETE") if b["complete"] else "EXECUTABLE"
            elif out.startswith("FAILURE"):
                rep.update(status="FAILURE", errorCode=out.split(":", 1)[1] if ":" in out else "ERROR_IN_ORDER")
            else:
                # TIMEOUT: the bet may or may not have been placed (plan decides)
                rep.update(status="TIMEOUT")
                if plan.get("timeout_places"):
                    changed.append(self._new_bet(mid, ins, params))
            reports.append(rep)
        if changed:
            self.emit(changed)
        status = "SUCCESS" if all(r["status"] == "SUCCESS" for r in reports) else "FAILURE" if all(r["status"] != "SUCCESS" for r in reports) else "PROCESSED_WITH_ERRORS"
        res = {"status": status, "marketId": mid, "instructionReports": reports}
        if params.get("customerRef"):
            res["customerRef"] = params["customerRef"]
        return res

    def _new_bet(self, mid, ins, params):
        self.next_id += 1
        bid = str(self.next_id)
        ot = ins["orderType"]
        lo = ins.get("limitOrder") or {}
        loc = ins.get("limitOnCloseOrder") or {}
        moc = ins.get("marketOnCloseOrder") or {}
        size = lo.get("size") or 0.0
        b = {
            "bet_id": bid,
            "market_id": mid,
            "selection_id": ins["selectionId"],
            "handicap": ins.get("handicap") or 0,
            "side": ins["side"],
            "order_type": ot,
            "price": lo.get("price") or loc.get("price") or 0.0,
            "size": size,
            "bsp_liability": loc.get("liability") or moc.get("liability"),
            "persistence": lo.get("persistenceType") or "LAPSE",
            "ref": ins.get("customerOrderRef"),
            "strategy_ref": params.get("customerStrategyRef"),
            "placed": self._pt(),
            "matched": 0.0,
            "avp": 0.0,
            "remaining": size,
            "cancelled": 0.0,
            "lapsed": 0.0,
            "voided": 0.0,
            "complete": False,
        }
        self.bets[bid] = b
        self.order.append(bid)
        return b

    def _cancelOrders(self, params, plan):
        mid = params["marketId"]
        reports, changed = [], []
        for i, ins in enumerate(params["instructions"]):
            b = self.bets.get(ins["betId"])
            default = "SUCCESS"
            if b is None or b["complete"]:
                default = "FAILURE:BET_TAKEN_OR_LAPSED"
            elif b["order_type"] != "LIMIT":
                default = "FAILURE:BET_ACTION_ERROR"
            out = self._outcome(plan, i, default)
            if out.startswith("SUCCESS") and (b is None or b["complete"]):
                out = "FAILURE:BET_TAKEN_OR_LAPSED"  # the table wins: nothing to cancel
            rep = {"instruction": {k: v for k, v in ins.items() if v is not None}}
            if out.startswith("SUCCESS"):
                red = ins.get("sizeReduction")
                x = round(min(red, b["remaining"]) if red else b["remaining"], 2)
                b["cancelled"] = round(b["cancelled"] + x, 2)
                b["remaining"] = round(b["remaining"] - x, 2)
                b["last_cancel"] = x
                if b["remaining"] == 0:
                    b["complete"] = True
                changed.append(b)
                rep.update(status="SUCCESS", sizeCancelled=x, cancelledDate=ms_iso(self._pt()))
            elif out.startswith("FAILURE"):
                rep.update(status="FAILURE", errorCode=out.split(":", 1)[1] if ":" in out else "ERROR_IN_ORDER")
            else:
                rep.update(status="TIMEOUT")
            reports.append(rep)
        if plan.get("shuffle"):
            reports = reports[::-1]
        for k in sorted(plan.get("omit", ()), reverse=True):
            if k < len(reports) and len(reports) > 1:
                del reports[k]
        if changed:
            self.emit(changed)
        status = "SUCCESS" if all(r["status"] == "SUCCESS" for r in reports) else "FAILURE" if all(r["status"] != "SUCCESS" for r in reports) else "PROCESSED_WITH_ERRORS"
        return {"status": status, "marketId": mid, "instructionReports": reports}

    def _updateOrders(self, params, plan):
        mid = params["marketId"]
        reports, changed = [], []
        for i, ins in enumerate(params["instructions"]):
            b = self.bets.get(ins["betId"])
            default = "SUCCESS" if (b is not None and not b["complete"] and b["order_type"] == "LIMIT") else "FAILURE:BET_TAKEN_OR_LAPSED"
            out = self._outcome(plan, i, default)
            if out.startswith("SUCCESS") and (b is None or b["complete"]):
                out = "FAILURE:BET_TAKEN_OR_LAPSED"
            rep = {"instruction": ins}
            if out.startswith("SUCCESS"):
                b["persistence"] = ins["newPersistenceType"]
                changed.append(b)
                rep.update(status="SUCCESS")
            elif out.startswith("FAILURE"):
                rep.update(status="FAILURE", errorCode=out.split(":", 1)[1] if ":" in out else "ERROR_IN_ORDER")
            else:
                rep.update(status="TIMEOUT")
            reports.append(rep)
        if changed:
            self.emit(changed)
        status = "SUCCESS" if all(r["status"] == "SUCCESS" for r in reports) else "FAILURE"
        return {"status": status, "marketId": mid, "instructionReports": reports}

    def _replaceOrders(self, params, plan):
        mid = params["marketId"]
        reports, changed = [], []
        for i, ins in enumerate(params["instructions"]):
            b = self.bets.get(ins["betId"])
            default = "SUCCESS" if (b is not None and not b["complete"] and b["order_type"] in ("LIMIT",)) else "FAILURE:BET_TAKEN_OR_LAPSED"
            out = self._outcome(plan, i, default)
            if out.startswith("SUCCESS") and (b is None or b["complete"]):
                out = "FAILURE:BET_TAKEN_OR_LAPSED"
            if out.startswith("SUCCESS") and b["order_type"] != "LIMIT":
                out = "FAILURE:BET_ACTION_ERROR"  # the exchange only replaces LIMIT bets
            crep = {"instruction": {"betId": ins["betId"]}}
            prep = {}
            if out.startswith("SUCCESS"):
                x = b["remaining"]
                b["cancelled"] = round(b["cancelled"] + x, 2)
                b["remaining"] = 0.0
                b["complete"] = True
                changed.append(b)
                crep.update(status="SUCCESS", sizeCancelled=x, cancelledDate=ms_iso(self._pt()))
                pout = (plan.get("place_reports") or [None] * (i + 1))[i] if plan.get("place_reports") and i < len(plan["place_reports"]) else None
                pins = {
                    "selectionId": b["selection_id"],
                    "side": b["side"],
                    "orderType": "LIMIT",
                    "limitOrder": {"size": x, "price": ins["newPrice"], "persistenceType": b["persistence"]},
                    "handicap": b["handicap"],
                    "customerOrderRef": b["ref"],
                }
                if pout and pout.startswith("FAILURE"):
                    prep.update(status="FAILURE", errorCode=pout.split(":", 1)[1] if ":" in pout else "ERROR_IN_ORDER", instruction=pins)
                else:
                    nb = self._new_bet(mid, pins, {"customerStrategyRef": b["strategy_ref"]})
                    frac = plan.get("match_on_place", 0.0)
                    if frac and i in plan.get("match_instructions", (0,)):
                        # the replacement is matched the instant it is placed (part or all of it)
                        mx = round(nb["size"] * frac, 2)
                        nb["matched"], nb["avp"], nb["remaining"] = mx, nb["price"], round(nb["size"] - mx, 2)
                        if nb["remaining"] == 0:
                            nb["complete"] = True
                    changed.append(nb)
                    prep.update(status="SUCCESS", betId=nb["bet_id"], placedDate=ms_iso(nb["placed"]), averagePriceMatched=nb["avp"], sizeMatched=nb["matched"], orderStatus="EXECUTION_COMPLETE" if nb["complete"] else "EXECUTABLE", instruction=pins)
                status = "SUCCESS" if prep["status"] == "SUCCESS" else "FAILURE"
            elif out.startswith("FAILURE"):
                code = out.split(":", 1)[1] if ":" in out else "ERROR_IN_ORDER"
                crep.update(status="FAILURE", errorCode=code)
                prep.update(status="FAILURE", errorCode="RELATED_ACTION_FAILED")
                status = "FAILURE"
            else:
                crep.update(status="TIMEOUT")
                prep.update(status="TIMEOUT")
                status = "TIMEOUT"
            reports.append({"status": status, "cancelInstructionReport": crep, "placeInstructionReport": prep})
        if changed:
            self.emit(changed)
        st = "SUCCESS" if all(r["status"] == "SUCCESS" for r in reports) else "FAILURE"
        return {"status": st, "marketId": mid, "instructionReports": reports}


# --------------------------------------------------------------------------- Betdaq double


class BetdaqExchange:
    """Order table + method-level API stub for the Betdaq client (place / cancel / update, polling diffs)."""

    def __init__(self, sim):
        self.sim = sim
        self.orders = {}  # order_id -> dict
        self.next_id = 7000
        self.seq = 0
        self.poll = deque()  # pending polling batches (lists of order dicts)
        self.calls = []

    def _emit(self, o):
        self.seq += 1
        o["sequence_number"] = self.seq
        self.poll.append([dict(o)])

    # -- API (runs on pool task threads; parks like the HTTP transport does)
    def _call(self, name, n):
        self.sim.call_no += 1
        self.calls.append((name, n))
        plan = self.sim.fault_plan.get(self.sim.call_no, {})
        t = self.sim.current_task
        if t is not None:
            t.park("request-in-flight")
        if plan.get("transport") in ("conn_before",):
            self.sim.res.faults["betdaq.api_error_before"] += 1
            from betdaq import BetdaqError

            raise BetdaqError("simulated")
        return plan, t

    def _done(self, plan, t):
        if t is not None:
            t.park("response-in-flight")
        if plan.get("transport") in ("conn_after", "http503", "badjson", "aping"):
            self.sim.res.faults["betdaq.api_error_after"] += 1
            from betdaq import BetdaqError

            raise BetdaqError("simulated")

    def place_orders(self, order_list):
        plan, t = self._call("place_orders", len(order_list))
        out = []
        for i, ins in enumerate(order_list):
            rc = 0
            outs = plan.get("reports") or []
            if i < len(outs) and outs[i] and outs[i].startswith("FAILURE"):
                rc = 137
            rep = {"customer_reference": ins["PunterReferenceNumber"], "return_code": rc}
            if not rc:
                self.next_id += 1
                o = {
                    "order_id": self.next_id,
                    "customer_reference": ins["PunterReferenceNumber"],
                    "status": "Unmatched",
                    "price": ins["Price"],
                    "size": ins["Stake"],
                    "matched_size": 0.0,
                    "matched_price": 0.0,
                    "remaining_size": ins["Stake"],
                    "polarity": ins["Polarity"],
                    "runner_id": ins["SelectionId"],
                }
                self.orders[self.next_id] = o
                rep["order_id"] = self.next_id
                self._emit(o)
            out.append(rep)
        if plan.get("shuffle"):
            out = out[::-1]
        self._done(plan, t)
        return out

    def cancel_orders(self, order_ids):
        plan, t = self._call("cancel_orders", len(order_ids))
        out = []
        for oid in order_ids:
            o = self.orders.get(oid)
            if o is None or o["status"] not in ("Unmatched", "Suspended"):
                continue  # nothing to cancel: not reported back
            o["status"] = "Cancelled"
            o["remaining_size"] = 0.0
            self._emit(o)
            out.append({"order_id": oid})
        self._done(plan, t)
        return out

    def update_orders(self, order_list):
        plan, t = self._call("update_orders", len(order_list))
        out = []
        for i, ins in enumerate(order_list):
            o = self.orders.get(ins["BetId"])
            outs = plan.get("reports") or []
            fail = (i < len(outs) and outs[i] and outs[i].startswith("FAILURE")) or o is None or o["status"] not in ("Unmatched", "Suspended")
            rep = {"order_id": ins["BetId"], "return_code": 22 if fail else 0}
            if not fail:
                o["price"] = ins["Price"]
                o["remaining_size"] = round(max(0.0, o["remaining_size"] + (ins.get("DeltaStake") or 0.0)), 2)
                self._emit(o)
            out.append(rep)
        self._done(plan, t)
        return out

    # -- exchange side
    def fill(self, k, size):
        ids = sorted(self.orders)
        if not ids:
            return False
        o = self.orders[ids[k % len(ids)]]
        if o["status"] not in ("Unmatched",):
            return False
        x = round(min(size, o["remaining_size"]), 2)
        o["matched_size"] = round(o["matched_size"] + x, 2)
        o["matched_price"] = o["price"]
        o["remaining_size"] = round(o["remaining_size"] - x, 2)
        if o["remaining_size"] == 0:
            o["status"] = "Matched"
        self._emit(o)
        return True


class _BdqBetting:
    def __init__(self, ex):
        self.ex = ex

    def place_orders(self, order_list):
        return self.ex.place_orders(order_list)

    def cancel_orders(self, order_ids):
        return self.ex.cancel_orders(order_ids)

    def update_orders(self, order_list):
        return self.ex.update_orders(order_list)


class StubBetdaqAPI:
    def __init__(self, ex, username):
        self.username = username
        self.betting = _BdqBetting(ex)

        class _Acc:
            def get_account_balances(self_inner):
                return {}

        self.account = _Acc()


# --------------------------------------------------------------------------- agent (live flavour)


def live_agent_class():
    if "LiveAgent" in _F:
        return _F["LiveAgent"]
    Base = backtest.agent_class()

    class LiveAgent(Base):
        def process_orders(self, market, orders):
            self.calls.append(("orders", market.market_id, None))
            _dispatch("strategy_call", self, market, "orders")
            self.run._maybe_raise(self, "orders", market)
            self._perform(market, "oacts")

    _F["LiveAgent"] = LiveAgent
    return LiveAgent


class StubStream:
    def __init__(self):
        self.running = True

    def stop(self):
        self.running = False


# --------------------------------------------------------------------------- the run


class LiveRun:
    """One simulated live session (possibly several framework incarnations over one exchange)."""

    def __init__(self, scenario, monitor_classes, owner=None):
        self.scenario = scenario
        self.res = core.Result()
        self.owner = owner
        self.harness_error = None
        self.hooks = {}
        self.n_orders = 0
        self.monitors = []
        self.monitor_classes = monitor_classes
        self.markets_by_id = {m["id"]: m for m in scenario["markets"]}
        self._obs_crashes = set()
        if any(m.get("hc") for m in scenario["markets"]):
            self.res.probes["scenario.handicap_market"] += 1
        self.pt_index = {m["id"]: {u["pt"]: j for j, u in enumerate(m["updates"])} for m in scenario["markets"]}
        self.cur_update = {}
        self.cur_index = {}
        self.cur_pt = {}
        self.held = {}
        self.last_delivered = {}
        self.now_ms = None
        self.fw = None
        self.clients = []
        self.agents = []
        self.crash = None
        self.inject = scenario.get("inject")
        self._inject_count = 0
        # simulator state
        self.now = (scenario["markets"][0]["updates"][0]["pt"] / 1000.0) if scenario["markets"] else 1.7e9
        self.ctrl = threading.Semaphore(0)
        self.tasks = []  # parked, resumable
        self.waiting = deque()  # submitted but no worker free
        self.n_tasks = 0
        self.current_task = None
        self.aborting = False
        self.exchange = Exchange(self)
        self.bdq = BetdaqExchange(self)
        self.order_stream_id = 10000
        self.tape = list(scenario.get("tape") or [])
        self.tape_pos = 0
        self.step = 0
        self.max_steps = scenario.get("max_steps", 400)
        self.market_cursor = {m["id"]: 0 for m in scenario["markets"]}
        self.market_stream = None
        self.order_stream = None
        self.ex_events = deque(scenario.get("exchange_events") or [])
        self.call_no = 0
        self.fault_plan = {int(k): v for k, v in (scenario.get("faults") or {}).items()}
        self.draining = False
        self.finished = False
        self.final_image_sent = False
        self.incarnation = 0
        self.crash_steps = set(scenario.get("crash_at") or [])
        self.log = []
        self.quiescent_checks = 0
        self.in_main = False
        self.main_thread = None
        self.custom_calls = []

    # ---- API shared with backtest monitors
    def state(self, mid, j):
        return self.markets_by_id[mid]["updates"][j]

    def held_state(self, mid):
        j = self.held.get(mid)
        return None if j is None else self.markets_by_id[mid]["updates"][j]

    def note_harness(self, text):
        if self.harness_error is None:
            self.harness_error = text

    def note_sut_exception(self, exc_info):
        site = sut_site(exc_info)
        if site is None:
            self.note_harness("".join(traceback.format_exception(*exc_info)))
        else:
            self._record_crash(site, exc_info, "strategy request")

    def _record_crash(self, site, exc_info, where):
        prop = None
        for prefix, o in backtest.SITE_OWNERS:
            if site[0].startswith(prefix):
                prop = o
                break
        if self.crash is None:
            self.crash = {"site": site, "owner": prop, "exc": "%s: %s" % (exc_info[0].__name__, exc_info[1]), "where": where}

    def _maybe_raise(self, strategy, kind, market):
        inj = self.inject
        if not inj or inj["strategy"] != strategy.name or inj["kind"] != kind:
            return
        self._inject_count += 1
        if self._inject_count == inj["nth"]:
            self.res.faults["callback_exception.%s" % kind] += 1
            raise ValueError("injected")

    # ---- pool
    def submit(self, fn, args):
        self.n_tasks += 1
        t = Task(self, fn, args, getattr(fn, "__name__", "task"))
        t.thread.start()
        pool = self.fw.betfair_execution._thread_pool
        running = len([x for x in self.tasks if x.state != "done"])
        if running < pool._max_workers:
            self.tasks.append(t)
        else:
            self.waiting.append(t)
            self.res.probes["live.pool_exhausted_task_queued"] += 1
            return
        # pre-emption of the submitting thread: a pool thread may start - and even finish its round trip - before
        # submit() returns to the main loop (thread start hands over the GIL; nothing orders the two). Decided by the
        # scenario alone (knob preempt_pct and the tape), so a replay takes the same decisions.
        pct = self.scenario.get("preempt_pct", 0)
        if pct and self.current_task is None and not self.aborting and threading.current_thread() is self.main_thread:
            k = self.tape[(self.n_tasks * 7 + 3) % len(self.tape)] if self.tape else 0
            if k % 100 < pct:
                upto = (1, 2, 99, 99)[(k // 100) % 4]  # until the request left / the exchange applied it / the reply was processed
                self.res.faults["schedule.pool_thread_runs_inside_submit"] += 1
                self.log.append(("preempt", self.n_tasks, upto))
                n = 0
                while t.state != "done" and n < upto and t in self.tasks:
                    self.resume(t)
                    n += 1
                if t.state == "done":
                    self.res.faults["schedule.reply_processed_before_submit_returned"] += 1

    def _yield_point(self):
        """Pre-emption point inside the processing of a reply (scenario knob yield_pct): a pool thread that has just finished
        applying one instruction report (it leaves the `with order.trade:` block) may be suspended there, so that other pool
        threads and the main loop run before the next report is applied - nothing in flumine serialises them. Decided by the
        scenario's tape, so a replay takes the same decisions."""
        t = self.current_task
        if t is None or self.aborting or not self.scenario.get("yield_pct") or threading.current_thread() is not t.thread:
            return
        self.n_yields = getattr(self, "n_yields", 0) + 1
        k = self.tape[(self.n_yields * 13 + 5) % len(self.tape)] if self.tape else 0
        if k % 100 < self.scenario.get("yield_pct", 0):
            self.res.faults["schedule.pool_thread_suspended_between_instruction_reports"] += 1
            self.log.append(("yield", self.n_yields))
            t.park("mid-reply")

    def resume(self, task):
        self.current_task = task
        if task.wake_at is not None:
            self.now = max(self.now, task.wake_at)
            task.wake_at = None
        self._sync_clock()
        task.go.release()
        self.ctrl.acquire()
        self.current_task = None
        if task.state == "done":
            self.tasks.remove(task)
            if task.error is not None:
                ei = task.error
                site = sut_site(ei)
                if site is None:
                    self.note_harness("pool task: " + "".join(traceback.format_exception(*ei)))
                else:
                    self._record_crash(site, ei, "pool task")
            while self.waiting and len(self.tasks) < self.fw.betfair_execution._thread_pool._max_workers:
                self.tasks.append(self.waiting.popleft())

    def _sync_clock(self):
        _F["config"].current_time = _real_datetime_class.utcfromtimestamp(round(self.now, 3))
        self.now_ms = int(round(self.now * 1000))

    # ---- network (called on task threads)
    def network_call(self, url, data):
        t = self.current_task
        request = json.loads(data)
        self.call_no += 1
        n = self.call_no
        plan = self.fault_plan.get(n, {})
        method = request["method"].split("/")[-1]
        self.log.append(("call", n, method, len(request["params"].get("instructions", []))))
        _dispatch("api_call", n, method, request, plan)
        if t is not None:
            t.park("request-in-flight")
        fault = plan.get("transport")
        if fault == "conn_before":
            self.res.faults["transport.connection_error_before_exchange"] += 1
            import requests

            raise requests.ConnectionError("simulated connection error")
        response = self.exchange.handle(request, plan)
        _dispatch("api_applied", n, method, request, response)
        if t is not None:
            t.park("response-in-flight")
        if fault == "conn_after":
            self.res.faults["transport.connection_error_after_exchange"] += 1
            import requests

            raise requests.ConnectionError("simulated read timeout")
        if fault == "http503":
            self.res.faults["transport.http_503"] += 1
            return FakeResponse(503, b"Service Unavailable")
        if fault == "badjson":
            self.res.faults["transport.invalid_json"] += 1
            return FakeResponse(200, b"<html>bad gateway</html>")
        if fault == "aping":
            self.res.faults["transport.aping_error"] += 1
            return FakeResponse(200, json.dumps({"jsonrpc": "2.0", "error": {"code": -32099, "message": "ANGX-0003", "data": {"APINGException": {"errorCode": "TOO_MANY_REQUESTS", "errorDetails": "", "requestUUID": "x"}, "exceptionname": "APINGException"}}, "id": 1}))
        return FakeResponse(200, json.dumps(response))

    # ---- scheduler
    def _choices(self):
        ch = []
        if self.fw.handler_queue.q:
            ch.append(("event",))
        for t in self.tasks:
            if t.state != "done":
                ch.append(("task", t))
        if self.exchange.ocm and (not self.exchange.ocm_ready or self.exchange.ocm_ready[0] <= self.step or self.draining or not ch):
            ch.append(("ocm",))
        if self.bdq.poll:
            ch.append(("bdq",))
        if not self.draining:
            for m in self.scenario["markets"]:
                if self.market_cursor[m["id"]] < len(m["updates"]):
                    ch.append(("mcm", m["id"]))
                    break
            if self.ex_events:
                ch.append(("exchange",))
            # low-weight extras (a quarter of the steps): duplicate snapshot, idle tick
            k = self.tape[self.tape_pos] if self.tape_pos < len(self.tape) else 0
            if (k // 1000) % 4 == 0:
                if self.exchange.last_ocm is not None and self.scenario.get("duplicates"):
                    ch.append(("dup",))
                if self.scenario.get("idle_ticks"):
                    ch.append(("tick",))
        return ch

    def next_event(self):
        """Runs on the main-loop thread inside handler_queue.get()."""
        if self.in_main:
            self.in_main = False
            _dispatch("step_end")
        while True:
            if self.aborting:
                return _F["events"].TerminationEvent(None)
            self.step += 1
            if self.step > self.max_steps and not self.draining:
                self.draining = True
            if self.step in self.crash_steps and not self.draining:
                self.crash_steps.discard(self.step)
                self.res.faults["crash_restart"] += 1
                self.restart_requested = True
                return _F["events"].TerminationEvent(None)
            ch = self._choices()
            if not self.draining and self.tape_pos >= len(self.tape):
                self.draining = True
                ch = self._choices()
            if not ch:
                if not self.final_image_sent:
                    # faults have stopped and everything is drained: one fresh full image ("latest snapshot")
                    self.final_image_sent = True
                    self.draining = True
                    _dispatch("quiescent", "before-final-image")
                    # (the stream cache of a running instance keeps completed bets, so the latest snapshot has them)
                    self.exchange.image(include_complete=True)
                    continue
                self.finished = True
                _dispatch("quiescent", "final")
                return _F["events"].TerminationEvent(None)
            if self.draining:
                c = ch[0]
            else:
                k = self.tape[self.tape_pos]
                self.tape_pos += 1
                c = ch[k % len(ch)]
            self.log.append(("step", self.step, c[0]))
            kind = c[0]
            if kind == "event":
                ev = self.fw.handler_queue.q.popleft()
                self._sync_clock()
                _dispatch("main_event", ev)
                self.in_main = True
                return ev
            if kind == "task":
                self.resume(c[1])
            elif kind == "ocm":
                if self.exchange.ocm_ready:
                    self.exchange.ocm_ready.popleft()
                self._deliver_ocm(self.exchange.ocm.popleft())
            elif kind == "bdq":
                batch = self.bdq.poll.popleft()
                self.fw.handler_queue.put(_F["events"].CurrentOrdersEvent(batch, exchange=_F["clients"].ExchangeType.BETDAQ))
                self.res.probes["live.betdaq_poll_delivered"] += 1
            elif kind == "dup":
                self.res.faults["order_stream.duplicate_snapshot"] += 1
                self._deliver_ocm(self.exchange.last_ocm, dup=True)
            elif kind == "mcm":
                self._deliver_mcm(c[1])
            elif kind == "exchange":
                self._exchange_event(self.ex_events.popleft())
            elif kind == "tick":
                self.now += self.scenario.get("tick_seconds", 0.25)
                self._sync_clock()
                if self.fw.markets.live_orders:
                    self.fw.handler_queue.put(_F["events"].CurrentOrdersEvent([]))
            if not self.tasks and not self.exchange.ocm and not self.fw.handler_queue.q:
                _dispatch("quiescent", "idle")

    def _deliver_ocm(self, raw, dup=False):
        st = self.order_stream
        if st is None:
            return
        self.exchange.last_ocm = raw
        st._listener.on_data(raw)
        out = []
        try:
            while True:
                out = st._output_queue.get_nowait()
                for ob in out:
                    ob.client = st.client
                self.fw.handler_queue.put(_F["events"].CurrentOrdersEvent(out))
        except Exception:
            pass
        self.res.probes["live.ocm_delivered"] += 1

    def _deliver_mcm(self, mid):
        m = self.markets_by_id[mid]
        j = self.market_cursor[mid]
        self.market_cursor[mid] = j + 1
        line = self.lines[mid][j]
        if self.need_image.get(mid):
            # fresh subscription (first message or after a restart): full image
            line = marketgen.image_line(m, j)
            self.need_image[mid] = False
        upd = m["updates"][j]
        self.now = max(self.now, upd["pt"] / 1000.0)
        self._sync_clock()
        # the exchange knows the market status before the framework does
        self.exchange.suspended_markets[mid] = upd["st"] != "OPEN"
        if upd["st"] != "OPEN":
            self.res.faults["live.market_%s" % upd["st"].lower()] += 1
            if any(t.state.startswith("parked") for t in self.tasks):
                self.res.faults["live.market_%s.while_request_in_flight" % upd["st"].lower()] += 1
        st = self.market_stream
        d = json.loads(line)
        if st is not None and (st.market_filter or not self.data_streams):
            d["id"] = st.stream_id
            st._listener.on_data(json.dumps(d))
            try:
                while True:
                    books = st._output_queue.get_nowait()
                    self.fw.handler_queue.put(_F["events"].MarketBookEvent(books))
            except Exception:
                pass
        for ds in self.data_streams:
            # raw-data (recorder) streams: the real FlumineListener puts RawDataEvents on the handler queue itself
            d2 = json.loads(line)
            d2["id"] = ds.stream_id
            ds._listener.on_data(json.dumps(d2))
        if self.sports_stream is not None and upd.get("rcm"):
            # race (sports data) update for this market through the real bflw race stream/cache
            ss = self.sports_stream
            rids = [r["id"] if isinstance(r, dict) else r for r in m["runners"]]
            rc = {"mid": mid, "id": "%s.1200" % m.get("event_id", "1"), "rpc": {"ft": upd["pt"], "g": "1f", "st": 1.0, "rt": 2.0, "spd": 17.0, "prg": float(upd["rcm"]), "ord": rids}, "rrc": [{"ft": upd["pt"], "id": r, "long": 0.1, "lat": 0.2, "spd": 17.0, "prg": float(upd["rcm"]), "sfq": 2.1} for r in rids[:2]]}
            ss._listener.on_data(json.dumps({"op": "rcm", "id": ss.stream_id, "clk": "r%d" % j, "pt": upd["pt"], "rc": [rc]}))
            try:
                while True:
                    races = ss._output_queue.get_nowait()
                    self.fw.handler_queue.put(_F["events"].SportsDataEvent(races))
                    self.res.probes["live.sports_data_delivered"] += 1
            except queue.Empty:
                pass
        # scenario-defined custom events (C13): a callback that may raise
        self.n_mcm = getattr(self, "n_mcm", 0) + 1
        for ce in self.scenario.get("custom_events") or ():
            if ce.get("after_mcm") == self.n_mcm:
                run = self

                def cb(flumine, event, ce=ce):
                    run.custom_calls.append(ce.get("id"))
                    if ce.get("raise"):
                        run.res.faults["callback_exception.custom_event"] += 1
                        if ce.get("flumine"):
                            raise _F["FlumineException"]("injected")
                        raise ValueError("injected")

                self.fw.handler_queue.put(_F["events"].CustomEvent(ce.get("id"), cb))

    def _exchange_event(self, ev):
        if self.scenario.get("betdaq") and ev["type"] == "fill":
            if self.bdq.fill(ev.get("bet", 0), ev.get("size", 1.0)):
                self.res.faults["betdaq.fill"] += 1
            return
        if ev["type"] == "sibling_bet":
            # a bet placed by another instance of the same strategy (same reference hash, unknown order id): adopted
            m = self.scenario["markets"][ev.get("market", 0) % len(self.scenario["markets"])]
            if self.scenario.get("betdaq") or not self.agents:
                return
            a = self.agents[ev.get("strategy", 0) % len(self.agents)]
            self.n_sibling = getattr(self, "n_sibling", 0) + 1
            sel = m["runners"][ev.get("runner", 0) % len(m["runners"])]
            hc = (m.get("hc") or {}).get(str(sel), 0)
            b = self.exchange._new_bet(
                m["id"],
                {"selectionId": sel, "side": ev.get("side", "BACK"), "orderType": "LIMIT", "limitOrder": {"size": 2.0, "price": 980.0 if ev.get("side", "BACK") == "BACK" else 1.02, "persistenceType": "LAPSE"}, "handicap": hc, "customerOrderRef": "%s-1399%015d" % (a.name_hash, self.n_sibling)},
                {"customerStrategyRef": "simhost"},
            )
            if ev.get("age"):
                # the other instance placed it a while ago (it only shows up now, e.g. after a re-subscription)
                b["placed"] -= int(ev["age"] * 1000)
                self.res.faults["exchange.sibling_bet.placed_earlier"] += 1
            out = [b]
            if ev.get("replaced"):
                # the other instance has replaced its bet already: the original (cancelled) and the replacement share one
                # customerOrderRef and show up together
                x = b["remaining"]
                b["cancelled"], b["remaining"], b["complete"] = round(b["cancelled"] + x, 2), 0.0, True
                nb = self.exchange._new_bet(
                    m["id"],
                    {"selectionId": sel, "side": b["side"], "orderType": "LIMIT", "limitOrder": {"size": x, "price": 970.0 if b["side"] == "BACK" else 1.03, "persistenceType": "LAPSE"}, "handicap": hc, "customerOrderRef": b["ref"]},
                    {"customerStrategyRef": "simhost"},
                )
                out.append(nb)
                self.res.faults["exchange.sibling_bet.replaced_pair"] += 1
            self.exchange.emit(out)
            self.res.faults["exchange.sibling_bet"] += 1
            mk = self.fw.markets.markets.get(m["id"])
            if mk is not None and mk.closed:
                self.res.faults["exchange.sibling_bet.in_closed_market"] += 1
            return
        ids = self.exchange.order
        if not ids:
            return
        bid = ids[ev.get("bet", 0) % len(ids)]
        if ev["type"] == "fill":
            if self.exchange.fill(bid, ev.get("size", 1.0), ev.get("price")):
                self.res.faults["exchange.fill"] += 1
                if any(t.state.startswith("parked") for t in self.tasks):
                    self.res.faults["exchange.fill.while_request_in_flight"] += 1
        elif ev["type"] == "lapse":
            if self.exchange.lapse(bid):
                self.res.faults["exchange.lapse"] += 1
                if any(t.state.startswith("parked") for t in self.tasks):
                    self.res.faults["exchange.lapse.while_request_in_flight"] += 1

    # ---- main-loop side hooks (update bookkeeping for agents)
    def _on_main_event(self, ev):
        pass

    # ---- build / run
    def _build(self, first=True):
        F = _F
        sc = self.scenario
        cfg = sc.get("cfg", {})
        import betfairlightweight

        self.clients = []
        for i, cs in enumerate(sc.get("clients") or [{}]):
            if cs.get("exchange") == "betdaq":
                c = F["clients"].BetdaqClient(StubBetdaqAPI(self.bdq, "bdq%d" % i), transaction_limit=cs.get("limit", 5000), order_stream=True)
                self.clients.append(c)
                continue
            bc = betfairlightweight.APIClient("user%d" % i, "pw", app_key="k", lightweight=False)
            bc.login = lambda: None
            bc.logout = lambda: None
            bc.keep_alive = lambda: None
            c = F["clients"].BetfairClient(bc, transaction_limit=cs.get("limit", 5000), order_stream=True)
            c.update_account_details = lambda: None
            self.clients.append(c)
        fw = F["Flumine"](client=self.clients[0])
        for c in self.clients[1:]:
            fw.add_client(c)
        self.fw = fw
        fw.handler_queue = SimQueue(self)
        fw._add_default_workers = lambda: None
        fw.betfair_execution._thread_pool = SimPool(self, cfg.get("max_workers", 32))
        fw.betdaq_execution._thread_pool = SimPool(self, 1)
        fw.streams.start = lambda: None
        fw.streams.stop = lambda: None
        fw.add_logging_control(backtest.SyncLoggingControl())
        if cfg.get("execution_validation"):
            fw.add_trading_control(F["ExecutionValidation"])
        for cs in sc.get("controls", ()):
            if cs.get("level") == "client":
                fw.add_client_control(self.clients[cs.get("client", 0)], backtest.scripted_control_class(True), spec=cs)
            else:
                fw.add_trading_control(backtest.scripted_control_class(False), spec=cs)
        self.middlewares = []
        for mw in sc.get("middlewares", ()):
            smw = backtest.ScriptMiddleware(self, mw)
            fw.add_market_middleware(smw)
            self.middlewares.append(smw)
        Agent = live_agent_class()
        self.agents = []
        missing = set(sc.get("missing_after_restart") or []) if not first else set()
        for ss in sc["strategies"]:
            if ss["name"] in missing:
                continue
            spec = dict(ss)
            if not first and not sc.get("script_after_restart"):
                spec["silent"] = True
            agent = Agent(
                self,
                spec,
                market_filter={} if ss.get("empty_filter") else {"marketIds": [m["id"] for m in sc["markets"]]},
                stream_class=(F["DataStream"] if ss.get("data_stream") else F["MarketStream"]),
                sports_data_filter=(["raceSubscription"] if ss.get("sports") else None),
                name=ss["name"],
                max_order_exposure=ss.get("max_order_exposure", 1000),
                max_selection_exposure=ss.get("max_selection_exposure", 10000),
                max_market_exposure=ss.get("max_market_exposure"),
                max_trade_count=ss.get("max_trade_count", 1e6),
                max_live_trade_count=ss.get("max_live_trade_count", 100),
                multi_order_trades=ss.get("multi_order_trades", False),
            )
            fw.add_strategy(agent)
            self.agents.append(agent)
        self.market_stream = None
        self.order_stream = None
        self.need_image = {m["id"]: True for m in sc["markets"]}
        self.data_streams = []
        self.sports_stream = None
        for s in fw.streams:
            if isinstance(s, F["OrderStream"]):
                self.order_stream = s
                s._stream = StubStream()
                s._stream.running = not cfg.get("order_stream_down", False)
                self.order_stream_id = s.stream_id
                s._listener.register_stream(s.stream_id, "orderSubscription")
            elif isinstance(s, F["SportsDataStream"]):
                s._stream = StubStream()
                s._listener.register_stream(s.stream_id, "raceSubscription")
                self.sports_stream = s
            elif isinstance(s, F["DataStream"]):
                s._stream = StubStream()
                s._listener.register_stream(s.stream_id, "marketSubscription")
                if s.market_filter:
                    self.data_streams.append(s)
            elif isinstance(s, F["MarketStream"]):
                s._stream = StubStream()
                s._listener.register_stream(s.stream_id, "marketSubscription")
                if s.market_filter or self.market_stream is None:
                    self.market_stream = s

    def acts_for(self, market_id, pt):
        return self.cur_update.get(market_id)

    def execute(self) -> core.Result:
        F = _load()
        config = F["config"]
        sc = self.scenario
        cfg = sc.get("cfg", {})
        saved_cfg = {k: getattr(config, k) for k in dir(config) if not k.startswith("_") and isinstance(getattr(config, k), (int, float, bool, str, type(None)))}
        self.lines = {m["id"]: marketgen.serialise_lines(m) for m in sc["markets"]}
        fake_uuid = backtest.FakeUUIDModule()
        uuid_mods = [F["order_mod"], F["trade_mod"], F["package_mod"], F["futils"]]
        saved_uuid = [m.uuid for m in uuid_mods]
        simtime = SimTime(self)
        time_mods = [F["baseflumine_mod"], F["baseexecution"], F["package_mod"]]
        saved_time = [m.time for m in time_mods]
        import requests as real_requests

        saved_requests = F["baseexecution"].requests
        F["BaseResource"].strip_datetime.cache_clear()
        try:
            for m in uuid_mods:
                m.uuid = fake_uuid
            for m in time_mods:
                m.time = simtime
            F["baseexecution"].requests = FakeRequestsModule(self, real_requests)
            _dt_mod.datetime = F["NewDateTime"]
            config.customer_strategy_ref = "simhost"
            config.hostname = "simhost"
            config.async_place_orders = bool(cfg.get("async"))
            config.raise_errors = False
            self._sync_clock()
            backtest.CUR = self
            first = True
            while True:
                self.restart_requested = False
                self.incarnation += 1
                self._build(first=first)
                if first:
                    for cls in self.monitor_classes:
                        mon = cls(self)
                        self.monitors.append(mon)
                        for h in LIVE_HOOKS:
                            fn = getattr(mon, "on_" + h, None)
                            if fn is not None:
                                self.hooks.setdefault(h, []).append(fn)
                    _dispatch("begin")
                    for k in range(int(sc.get("foreign_bets") or 0)):
                        m0 = sc["markets"][0]
                        b = self.exchange._new_bet(
                            m0["id"],
                            {"selectionId": m0["runners"][0], "side": "BACK", "orderType": "LIMIT", "limitOrder": {"size": 3.0, "price": 990.0, "persistenceType": "LAPSE"}, "handicap": 0, "customerOrderRef": "ffffffffffff%d-13900000000000000%d" % (k, k)},
                            {"customerStrategyRef": "simhost"},
                        )
                        self.exchange.emit([b])
                else:
                    _dispatch("restart", self.fw)
                    # the new incarnation subscribes to the order stream and receives the initial image
                    self.exchange.ocm.clear()
                    self.exchange.ocm_ready.clear()
                    self.exchange.image(include_complete=sc.get("image_with_complete", True))
                first = False
                self.hooks.setdefault("main_event", [])
                if self._track_update not in self.hooks["main_event"]:
                    self.hooks["main_event"].insert(0, self._track_update)
                if sc.get("main_yield_pct") and self._main_yield_before_request not in self.hooks.setdefault("request_before", []):
                    self.hooks["request_before"].insert(0, self._main_yield_before_request)
                try:
                    self.main_thread = threading.current_thread()
                    self.fw.run()
                except core.SimulationAbort:
                    raise
                except Exception:
                    ei = sys.exc_info()
                    site = sut_site(ei)
                    if site is None:
                        self.note_harness("".join(traceback.format_exception(*ei)))
                    else:
                        self._record_crash(site, ei, "main loop")
                        if "injected" in str(ei[1]):
                            self.crash["owner"] = "C13"
                            self.crash["where"] = "callback exception not contained"
                    break
                if self.restart_requested and not self.finished:
                    self._abandon_tasks()
                    continue
                break
            _dispatch("end")
        finally:
            self._abandon_tasks()
            backtest.CUR = None
            _dt_mod.datetime = _real_datetime_class
            F["baseexecution"].requests = saved_requests
            for m, u in zip(uuid_mods, saved_uuid):
                m.uuid = u
            for m, t in zip(time_mods, saved_time):
                m.time = t
            for k, v in saved_cfg.items():
                setattr(config, k, v)
        res = self.res
        if self.harness_error:
            res.harness_error = self.harness_error
        if self.crash:
            c = self.crash
            if c["owner"] == self.owner or self.owner == "*":
                res.violate(c["owner"] or "C12", "%s.sut-crash" % (c["owner"] or "C12"), "%s:%s" % c["site"], exc=c["exc"], where=c["where"])
            else:
                res.discarded = "sut-crash at %s:%s (owner %s)" % (c["site"][0], c["site"][1], c["owner"])
        res.steps = self.step
        res.sim_seconds = max(0.0, self.now - (sc["markets"][0]["updates"][0]["pt"] / 1000.0 if sc["markets"] else self.now))
        if not res.digest:
            rows = []
            try:
                for market in self.fw.markets:
                    for o in market.blotter:
                        rows.append((o._vid, o.bet_id, tuple(x.name for x in o.status_log), o.size_matched, o.size_remaining, o.size_cancelled, o.trade.status.name))
            except Exception:
                pass
            res.digest = core.digest((self.log, rows, sorted((k, sorted(v.items())) for k, v in self.exchange.bets.items())))
        return res

    def _main_yield_before_request(self, kind, txn, order, a, k):
        """Pre-emption of the main loop inside a handler (scenario knob main_yield_pct): right before a strategy's request is
        validated, pool threads that are ready may run - e.g. apply a reply - so that two requests of one callback (or of
        one transaction) see different states. Decided by the scenario's tape."""
        pct = self.scenario.get("main_yield_pct", 0)
        if not pct or self.current_task is not None or self.aborting or threading.current_thread() is not self.main_thread:
            return
        self.n_main_yields = getattr(self, "n_main_yields", 0) + 1
        kk = self.tape[(self.n_main_yields * 11 + 7) % len(self.tape)] if self.tape else 0
        if kk % 100 >= pct:
            return
        ready = [t for t in self.tasks if t.state != "done"]
        if not ready:
            return
        t = ready[(kk // 100) % len(ready)]
        self.res.faults["schedule.pool_thread_runs_between_two_requests_of_a_handler"] += 1
        self.log.append(("main-yield", self.n_main_yields))
        n = 0
        while t.state != "done" and n < 3 and t in self.tasks:
            self.resume(t)
            n += 1

    def _track_update(self, ev):
        # bookkeeping for agents / monitors: which abstract update does this MarketBookEvent carry
        if ev.EVENT_TYPE.name == "MARKET_BOOK":
            for mb in ev.event:
                mid = mb.market_id
                j = self.pt_index.get(mid, {}).get(mb.publish_time_epoch)
                self.cur_index[mid] = j
                self.cur_pt[mid] = mb.publish_time_epoch
                self.cur_update[mid] = self.markets_by_id[mid]["updates"][j] if j is not None else None
                self.last_delivered[mid] = j
        elif ev.EVENT_TYPE.name == "CURRENT_ORDERS":
            # oacts fire at most once per update: clear after the first process_orders round
            pass

    def _abandon_tasks(self):
        self.aborting = True
        for t in list(self.tasks) + list(self.waiting):
            if t.state != "done":
                self.current_task = t
                t.go.release()
                self.ctrl.acquire()
        self.tasks = []
        self.waiting.clear()
        self.current_task = None
        self.aborting = False


LIVE_HOOKS = list(backtest.HOOKS) + ["api_call", "api_applied", "main_event", "quiescent", "restart", "step_end"]


def run_scenario(scenario, monitor_classes, owner=None) -> core.Result:
    from . import rt

    rt.set_tz(scenario.get("tz"))
    try:
        res = LiveRun(scenario, monitor_classes, owner=owner).execute()
    finally:
        rt.set_tz(None)
    if scenario.get("tz"):
        res.faults["host.time_zone_not_utc"] += 1
    return res
