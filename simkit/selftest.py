"""Self tests of the machinery: determinism (same seed twice, other process, other hash seed) and
sensitivity (mutant catalogue)."""
import json
import os
import subprocess
import sys
import time

from . import rt, core


def existing_checks():
    d = os.path.join(rt.VERIF_ROOT, "simkit", "checks")
    return sorted(f[:-3] for f in os.listdir(d) if f.startswith("C") and f.endswith(".py"))


def digests(cid, start, n, base_seed=0):
    from . import driver

    chk = driver.load_check(cid)
    out = []
    for i in range(start, start + n):
        rng = core.rng_for(base_seed, cid, i)
        sc = chk.generate(rng, i, "quick")
        res = chk.execute(sc)
        out.append((core.jdigest(sc)[:12], res.digest[:16], sorted(core.vkey(v) for v in res.violations), res.harness_error))
    return out


def _sub(cid, start, n, hashseed):
    env = dict(os.environ)
    env["PYTHONHASHSEED"] = str(hashseed)
    env["VERIF_KEEP_HASHSEED"] = "1"
    p = subprocess.run(
        [sys.executable, os.path.join(rt.VERIF_ROOT, "check"), "selftest", "_digests", cid, str(start), str(n)],
        env=env,
        stdout=subprocess.PIPE,
        stderr=subprocess.PIPE,
        text=True,
        timeout=900,
    )
    if p.returncode != 0:
        raise RuntimeError("sub-process failed: %s" % p.stderr[-2000:])
    return json.loads(p.stdout.strip().splitlines()[-1])


def determinism(checks, n_all):
    from . import driver

    bad = 0
    for cid in checks:
        t0 = time.time()
        n = min(n_all, getattr(driver.load_check(cid), "DETERMINISM_SEEDS_CAP", n_all))
        a = digests(cid, 0, n)
        b = digests(cid, 0, n)
        c = _sub(cid, 0, n, 0)
        d = _sub(cid, 0, n, 12345)
        norm = lambda x: json.loads(json.dumps(x))
        a, b = norm(a), norm(b)
        ok = a == b == c == d
        if not ok:
            bad += 1
            for i, (w, x, y, z) in enumerate(zip(a, b, c, d)):
                if not (w == x == y == z):
                    print("  DIVERGENCE %s seed index %d: in-process %s/%s fresh-process %s other-hashseed %s" % (cid, i, w[1], x[1], y[1], z[1]))
                    break
        print("determinism %s: %d seeds x 4 executions (same process twice, fresh process, fresh process with PYTHONHASHSEED=12345): %s (%.1fs)" % (cid, n, "identical" if ok else "DIFFERENT", time.time() - t0), flush=True)
    return bad


def main(argv):
    what = argv[0] if argv else "setup"
    if what == "_digests":
        cid, start, n = argv[1], int(argv[2]), int(argv[3])
        print(json.dumps(digests(cid, start, n)))
        return 0
    if what == "_c14":
        from .checks import C14

        print(json.dumps(C14.digests_of(json.load(open(argv[1])))))
        return 0
    if what == "setup":
        import flumine  # noqa

        print("flumine under test: %s" % os.path.dirname(flumine.__file__))
        bad = determinism(existing_checks(), 8)
        return 1 if bad else 0
    if what == "determinism":
        n = int(argv[1]) if len(argv) > 1 else 100
        checks = argv[2:] or existing_checks()
        bad = determinism(checks, n)
        return 1 if bad else 0
    if what == "pool":
        # the whole search is a pure function of (seed, check): identical set of event-log digests at 3 and at 16 workers, in fresh interpreters
        import tempfile, shutil

        n = int(argv[1]) if len(argv) > 1 else 1500
        bad = 0
        for cid in argv[2:] or existing_checks():
            got = []
            t0 = time.time()
            for workers, hs in ((3, "0"), (16, "4242")):
                d = tempfile.mkdtemp(prefix="verif_pool_")
                try:
                    env = dict(os.environ, VERIF_EVIDENCE_DIR=d, PYTHONHASHSEED=hs, VERIF_KEEP_HASHSEED="1", VERIF_NO_CORPUS="1")
                    p = subprocess.run([sys.executable, os.path.join(rt.VERIF_ROOT, "check"), cid, "--runs", str(n), "--wall", "3000", "--workers", str(workers), "--no-shrink"], env=env, stdout=subprocess.PIPE, stderr=subprocess.STDOUT, text=True, timeout=3600)
                    ev = json.load(open(os.path.join(d, cid + ".json")))
                    got.append((ev["coverage"]["event_log_set_digest"], ev["coverage"]["distinct_event_logs"], ev["coverage"]["evaluations"], p.returncode))
                finally:
                    shutil.rmtree(d, ignore_errors=True)
            ok = got[0] == got[1]
            bad += 0 if ok else 1
            print("pool-determinism %s: %d seeds at 3 workers (PYTHONHASHSEED=0) and 16 workers (PYTHONHASHSEED=4242): %s %s (%.1fs)" % (cid, n, "identical" if ok else "DIFFERENT", got, time.time() - t0), flush=True)
        return 1 if bad else 0
    if what == "sensitivity":
        from . import sensitivity

        return sensitivity.main(argv[1:])
    print("unknown selftest %r" % what)
    return 2
