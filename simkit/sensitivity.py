"""Sensitivity self-test: apply each catalogued mutant to a scratch copy of the tree, run the
expected check against it, expect a VIOLATION; clean up."""
import json
import os
import shutil
import subprocess
import sys
import tempfile
import time

from . import rt


def apply_mutant(m, dst):
    path = os.path.join(dst, m["file"])
    src = open(path).read()
    if src.count(m["old"]) != 1:
        raise RuntimeError("mutant %s: pattern occurs %d times in %s" % (m["id"], src.count(m["old"]), m["file"]))
    open(path, "w").write(src.replace(m["old"], m["new"]))


def run_one(m, check, runs, wall):
    tmp = tempfile.mkdtemp(prefix="verif_mut_%s_" % m["id"])
    try:
        shutil.copytree(os.path.join("/repo", "flumine"), os.path.join(tmp, "flumine"), ignore=shutil.ignore_patterns("__pycache__"))
        apply_mutant(m, tmp)
        env = dict(os.environ, VERIF_REPO=tmp, PYTHONDONTWRITEBYTECODE="1", VERIF_EVIDENCE_DIR=os.path.join(tmp, "ev"))
        t0 = time.time()
        p = subprocess.run([os.path.join(rt.VERIF_ROOT, "check"), check, "--runs", str(runs), "--wall", str(wall), "--no-shrink"], env=env, stdout=subprocess.PIPE, stderr=subprocess.STDOUT, text=True, timeout=wall + 300)
        lines = [l for l in p.stdout.splitlines() if l.startswith("VIOLATION") or l.startswith("  clause=")]
        replay_ok = sum(1 for l in p.stdout.splitlines() if l.startswith("  replay verified"))
        replay_bad = sum(1 for l in p.stdout.splitlines() if l.startswith("  replay NOT verified"))
        return {"mutant": m["id"], "what": m["what"], "check": check, "exit": p.returncode, "detected": p.returncode == 1, "first": lines[:2], "wall_s": round(time.time() - t0, 1), "replays_verified": replay_ok, "replays_not_verified": replay_bad}
    finally:
        shutil.rmtree(tmp, ignore_errors=True)


def main(argv):
    cat = json.load(open(os.path.join(rt.VERIF_ROOT, "mutants", "catalogue.json")))
    only = set(a for a in argv if not a.startswith("--"))
    runs = 6000
    wall = 60
    have = set(f[:-3] for f in os.listdir(os.path.join(rt.VERIF_ROOT, "simkit", "checks")) if f.startswith("C"))
    results = []
    for m in cat:
        for chk in m["expect"]:
            if chk not in have:
                continue
            if only and m["id"] not in only and chk not in only:
                continue
            try:
                r = run_one(m, chk, runs, wall)
            except Exception as e:
                r = {"mutant": m["id"], "what": m["what"], "check": chk, "exit": -1, "detected": False, "first": ["", "ERROR %s" % e], "wall_s": 0}
            results.append(r)
            print("%-4s %-4s %s  %s  (%.0fs)" % (r["mutant"], r["check"], "DETECTED" if r["detected"] else "MISSED(exit %d)" % r["exit"], (r["first"][1].strip()[:110] if len(r["first"]) > 1 else "") + (" [replays verified %d, not %d]" % (r.get("replays_verified", 0), r.get("replays_not_verified", 0))), r["wall_s"]), flush=True)
    if not only:
        out = os.path.join(rt.VERIF_ROOT, "evidence", "sensitivity.json")
        json.dump({"results": results, "detected": sum(r["detected"] for r in results), "total": len(results)}, open(out, "w"), indent=1)
    missed = [r for r in results if not r["detected"]]
    print("detected %d / %d" % (len(results) - len(missed), len(results)))
    return 1 if missed else 0
