"""Runtime bootstrap: which flumine tree is under test, pinned hash seed, quiet logging."""
import os
import sys
import logging

VERIF_ROOT = os.path.dirname(os.path.dirname(os.path.abspath(__file__)))


def repo_root() -> str:
    return os.environ.get("VERIF_REPO") or "/repo"


def bootstrap(pin_hashseed: bool = True) -> None:
    """Must be called before flumine is imported."""
    if pin_hashseed and not os.environ.get("VERIF_KEEP_HASHSEED") and os.environ.get("PYTHONHASHSEED") != "0":
        env = dict(os.environ)
        env["PYTHONHASHSEED"] = "0"
        os.execve(sys.executable, [sys.executable] + sys.argv, env)
    off = os.environ.get("VERIF_CLOCK_OFFSET")
    if off:
        _shift_real_clock(float(off))
    root = repo_root()
    # the tree under test wins over the editable install in /venv
    if sys.path[0] != root:
        sys.path.insert(0, root)
    if VERIF_ROOT not in sys.path:
        sys.path.insert(1, VERIF_ROOT)
    logging.disable(logging.CRITICAL)
    import flumine  # noqa

    got = os.path.dirname(os.path.dirname(os.path.abspath(flumine.__file__)))
    if os.path.realpath(got) != os.path.realpath(root):
        raise RuntimeError("flumine imported from %s, expected %s" % (got, root))


def _shift_real_clock(offset: float) -> None:
    """C14: make the *real* wall clock of this interpreter wrong by `offset` seconds."""
    import datetime as dt
    import time

    real = dt.datetime
    delta = dt.timedelta(seconds=offset)

    class ShiftedDateTime(real):
        @classmethod
        def utcnow(cls):
            return real.utcnow() + delta

        @classmethod
        def now(cls, tz=None):
            return real.now(tz) + delta

    dt.datetime = ShiftedDateTime
    real_time = time.time
    time.time = lambda: real_time() + offset


# POSIX TZ strings (no tzdata needed): the host's time zone is one more thing a run must not depend on
TIME_ZONES = ("EST5EDT,M3.2.0,M11.1.0", "JST-9", "XST-5:30", "GMT0BST,M3.5.0/1,M10.5.0", "NZST-12NZDT,M9.5.0,M4.1.0/3")


def set_tz(tz) -> None:
    """Host time zone of the process for the duration of one run (scenario key "tz"); None = UTC."""
    import time

    want = os.environ.get("VERIF_FORCE_TZ") or tz or "UTC0"  # VERIF_FORCE_TZ: C14's fresh interpreters each live in a zone of their own
    if os.environ.get("TZ") != want:
        os.environ["TZ"] = want
        time.tzset()


def tz_for(tag) -> object:
    """Side draw (does not touch the scenario's main generator): a quarter of the scenarios run under a foreign host time zone."""
    import random

    r = random.Random("tz|%s" % (tag,))
    return r.choice(TIME_ZONES) if r.random() < 0.25 else None
