"""Independent exchange-book model: generates abstract market histories and serialises them
as Betfair `mcm` stream lines.  The abstract history (a full book per update) is the oracle's
own truth about "the book at update j"; the lines are derived from it by diffing, so a
shrinker may drop updates freely."""
import copy
import datetime
import json
import random

# --------------------------------------------------------------------------- price ladder (own)
_CUT = ((2, 0.01), (3, 0.02), (4, 0.05), (6, 0.1), (10, 0.2), (20, 0.5), (30, 1), (50, 2), (100, 5), (1000, 10))


def _mk_ticks():
    out, p = [], 1.01
    for hi, step in _CUT:
        while round(p, 2) < hi:
            out.append(round(p, 2))
            p = round(p + step, 2)
        p = float(hi)
    out.append(1000.0)
    return out


TICKS = _mk_ticks()
TICK_INDEX = {p: i for i, p in enumerate(TICKS)}
T0_MS = 1_767_261_600_000  # 2026-01-01T10:00:00Z


def r2(x):
    return round(x + 0.0, 2)


def iso(ms):
    return datetime.datetime.utcfromtimestamp(ms / 1000).strftime("%Y-%m-%dT%H:%M:%S.000Z")


# --------------------------------------------------------------------------- generation

DEFAULT_KNOBS = dict(
    n_updates=(8, 40),
    n_runners=(2, 4),
    spacing="mixed",  # fast | normal | slow | mixed
    p_trade=0.5,
    p_suspend=0.15,
    p_inplay=0.4,
    p_removal=0.25,
    p_close=0.8,
    p_reopen_after_close=0.0,
    p_repeat_close=0.0,
    market_type=None,  # None -> random among WIN/PLACE/OTHER_PLACE/EACH_WAY
    bsp=None,
    line=False,
    dead_heat=0.0,
    first_closed=0.0,
    version_on_suspend=0.7,
    dyadic=False,  # prices/sizes/spacings exactly representable (boundary scenarios)
    removal_plan=None,  # [(runner index, adjustment factor)] forces these removals
    p_handicap=0.12,  # runners carry a non-zero handicap (handicap-style market: runner key = (selection id, handicap))
    p_lines=0.0,  # Asian-handicap style: the SAME selection id is listed on several handicap lines (only checks whose oracles look runners up by (selection, handicap) set this)
)


def _spacing(rng, regime, dyadic):
    if regime == "mixed":
        regime = rng.choice(["fast", "normal", "normal", "slow"])
    if dyadic:
        return rng.choice([125, 250, 500, 1000, 2000])
    if regime == "fast":
        return rng.choice([1, 1, 2, 5, 10, 20, 50])
    if regime == "normal":
        return rng.randint(40, 600)
    return rng.choice([1000, 2500, 5000, 20000, 61000, 180000])


def _size(rng, dyadic=False, big=False):
    if dyadic:
        return float(rng.choice([1, 2, 3, 4, 5, 8, 10]))
    if big:
        return r2(rng.uniform(5, 200))
    return r2(rng.choice([rng.uniform(0.5, 5), rng.uniform(2, 30), rng.uniform(10, 120)]))


class RunnerModel:
    """Back ladder (prices below the mid), lay ladder (prices above), cumulative traded ladder."""

    def __init__(self, rng, sel, line=None, dyadic=False):
        self.rng = rng
        self.sel = sel
        self.line = line
        self.dyadic = dyadic
        self.status = "ACTIVE"
        self.af = None
        self.bsp = None
        self.atb = {}
        self.atl = {}
        self.trd = {}
        self.burnt = set()
        self.ltp = None
        if line:
            lo, hi, step = line
            n = int(round((hi - lo) / step))
            self.ladder = [lo + i * step for i in range(n + 1)]
        elif dyadic:
            self.ladder = [p for p in TICKS if (p * 8) == int(p * 8) and p <= 12]
        else:
            self.ladder = TICKS
        top = min(len(self.ladder) - 6, 160 if not line else len(self.ladder) - 6)
        self.c = rng.randint(5, max(6, top))
        self._rebuild()

    def _rebuild(self):
        rng = self.rng
        self.atb, self.atl = {}, {}
        gap = rng.choice([0, 0, 1, 2])
        nb, nl = rng.choice([0, 1, 2, 3, 4, 6]), rng.choice([0, 1, 2, 3, 4, 6])
        for k in range(nb):
            i = self.c - k - rng.choice([0, 0, 0, 1]) * (k > 0)
            if 0 <= i < len(self.ladder):
                self.atb[self.ladder[i]] = _size(rng, self.dyadic)
        for k in range(nl):
            i = self.c + 1 + gap + k + rng.choice([0, 0, 0, 1]) * (k > 0)
            if 0 <= i < len(self.ladder):
                self.atl[self.ladder[i]] = _size(rng, self.dyadic)

    def best_back(self):
        return max(self.atb) if self.atb else None

    def best_lay(self):
        return min(self.atl) if self.atl else None

    def _lo_hi(self):
        bb, bl = self.best_back(), self.best_lay()
        ib = self.ladder.index(bb) if bb is not None else None
        il = self.ladder.index(bl) if bl is not None else None
        return ib, il

    def evolve(self, p_trade):
        rng = self.rng
        if self.trd and rng.random() < 0.04:
            # exchange correction: a traded level is withdrawn (cumulative volume back to 0); the price never trades
            # again in this history (a re-appearing level would be ambiguous), and most of the time another level
            # trades in the same update, so that the depth of the traded ladder does not change
            p = rng.choice(sorted(self.trd))
            del self.trd[p]
            self.burnt.add(p)
            if rng.random() < 0.7:
                self._trade()
        n_ev = rng.choice([0, 1, 1, 1, 2, 3])
        for _ in range(n_ev):
            x = rng.random()
            if x < p_trade:
                self._trade()
            elif x < p_trade + 0.15:
                self._add_level()
            elif x < p_trade + 0.27:
                self._remove_level()
            elif x < p_trade + 0.33:
                self.c = min(max(3, self.c + rng.choice([-3, -2, -1, 1, 2, 3])), len(self.ladder) - 6)
                self._rebuild()
            elif x < p_trade + 0.36 and self.trd:
                # currency wobble: a cumulative value shrinks a little
                p = rng.choice(sorted(self.trd))
                self.trd[p] = r2(max(self.trd[p] - rng.choice([0.01, 0.02, 0.5]), 0.01))
            elif x < p_trade + 0.40:
                self._resize_level()

    def _trade(self):
        rng = self.rng
        ib, il = self._lo_hi()
        cands = []
        if ib is not None:
            cands += [ib, ib, max(ib - 1, 0)]
        if il is not None:
            cands += [il, il, min(il + 1, len(self.ladder) - 1)]
        if not cands:
            cands = [self.c]
        n_levels = rng.choice([1, 1, 1, 2, 3])
        for _ in range(n_levels):
            i = rng.choice(cands)
            p = self.ladder[i]
            if p in self.burnt:
                continue
            x = _size(rng, self.dyadic)
            self.trd[p] = r2(self.trd.get(p, 0.0) + 2 * x)
            self.ltp = p
            # the traded volume may or may not eat the displayed size
            side = self.atb if p in self.atb else self.atl if p in self.atl else None
            if side is not None and rng.random() < 0.6:
                left = r2(side[p] - x)
                if left <= 0:
                    del side[p]
                else:
                    side[p] = left

    def _add_level(self):
        rng = self.rng
        if rng.random() < 0.5:
            ib, il = self._lo_hi()
            hi = (il - 1) if il is not None else self.c
            i = rng.randint(max(0, hi - 5), max(0, hi))
            if il is None or i < il:
                self.atb[self.ladder[i]] = _size(rng, self.dyadic)
        else:
            ib, il = self._lo_hi()
            lo = (ib + 1) if ib is not None else self.c + 1
            i = rng.randint(min(lo, len(self.ladder) - 1), min(lo + 5, len(self.ladder) - 1))
            if ib is None or i > ib:
                self.atl[self.ladder[i]] = _size(rng, self.dyadic)

    def _remove_level(self):
        rng = self.rng
        side = rng.choice([self.atb, self.atl])
        if side:
            del side[rng.choice(sorted(side))]

    def _resize_level(self):
        rng = self.rng
        side = rng.choice([self.atb, self.atl])
        if side:
            side[rng.choice(sorted(side))] = _size(rng, self.dyadic)

    def snapshot(self):
        return {
            "st": self.status,
            "af": self.af,
            "bsp": self.bsp,
            "atb": [[p, self.atb[p]] for p in sorted(self.atb, reverse=True)],
            "atl": [[p, self.atl[p]] for p in sorted(self.atl)],
            "trd": [[p, self.trd[p]] for p in sorted(self.trd)],
            "ltp": self.ltp,
        }


def gen_market(rng, idx, knobs=None, t0=None, event_id=None):
    k = dict(DEFAULT_KNOBS)
    k.update(knobs or {})
    dyadic = k["dyadic"]
    n_updates = rng.randint(*k["n_updates"])
    line = None
    if k["line"]:
        line = (rng.choice([20.5, 40.5, 100.5]), None, rng.choice([1.0, 1.0, 0.5]))
        line = (line[0], line[0] + 30 * line[2], line[2])
        n_runners = 1
        mtype = "COMBINED_TOTAL"
    else:
        n_runners = rng.randint(*k["n_runners"])
        mtype = k["market_type"] or rng.choice(["WIN", "WIN", "WIN", "PLACE", "OTHER_PLACE", "EACH_WAY"])
    winners = 1
    if mtype in ("PLACE", "OTHER_PLACE"):
        winners = rng.randint(1, max(1, n_runners - 1))
    bsp = k["bsp"] if k["bsp"] is not None else (rng.random() < 0.6 and not line)
    sels = [101 + i for i in range(n_runners)]
    t0 = t0 if t0 is not None else T0_MS + rng.randint(0, 3_000_000)
    market = {
        "id": "1.%09d" % (100000001 + idx),
        "event_id": event_id or "3%07d" % (1 + idx),
        "market_type": mtype,
        "betting_type": "LINE" if line else "ODDS",
        "line": list(line) if line else None,
        "bsp": bool(bsp),
        "winners": winners,
        "ew_divisor": rng.choice([4.0, 5.0]) if mtype == "EACH_WAY" else None,
        "persistence_enabled": rng.random() < 0.9,
        "runners": sels,
        "market_time": None,
        "updates": [],
    }
    # handicaps are drawn from a side generator (a function of values already drawn) so that the main stream is unchanged
    hrng = random.Random("hc|%s|%s" % (market["id"], t0))
    if not line and hrng.random() < k["p_handicap"]:
        market["hc"] = {str(s): (hrng.choice([-2.5, -1.5, -1.0, -0.5, 0.5, 1.0, 1.5, 2.5]) if hrng.random() < 0.85 else 0) for s in sels}
    if not line and len(sels) >= 2 and mtype != "EACH_WAY" and hrng.random() < k["p_lines"]:
        # internal runner keys stay 101.., on the wire they are two selection ids listed on len(sels)/2 handicap lines
        lines_ = [-1.5, 0.5, -0.5, 1.5, 2.5]
        market["rk"] = {str(s): [201 + (i % 2), lines_[i // 2]] for i, s in enumerate(sels)}
        market.pop("hc", None)
        market["market_type"] = "ASIAN_HANDICAP"
        market["winners"] = max(1, (len(sels) + 1) // 2)
    runners = {s: RunnerModel(rng, s, line=line, dyadic=dyadic) for s in sels}
    # adjustment factors (sum ~100 in WIN markets)
    raw = [rng.uniform(1, 10) for _ in sels]
    # a market either publishes adjustment factors for all runners or for none of them
    has_factors = not (k.get("removal_plan") and any(af is None for _, af in k["removal_plan"])) and rng.random() < 0.93
    for s, w in zip(sels, raw):
        runners[s].af = r2(100 * w / sum(raw)) if has_factors else None

    # plan market-level events
    has_inplay = rng.random() < k["p_inplay"] and n_updates >= 6
    i_inplay = rng.randint(n_updates // 2, n_updates - 2) if has_inplay else None
    removals = {}
    removal_af = {}
    if k.get("removal_plan"):
        for ridx, af in k["removal_plan"]:
            if ridx < n_runners and n_runners >= 2:
                j = rng.randint(1, max(1, n_updates - 2))
                if j not in removals:
                    removals[j] = sels[ridx]
                    removal_af[sels[ridx]] = af
    elif n_runners >= 2 and rng.random() < k["p_removal"]:
        for _ in range(rng.choice([1, 1, 2]) if n_runners >= 3 else 1):
            j = rng.randint(1, max(1, n_updates - 2))
            removals.setdefault(j, rng.choice(sels))
    suspend_starts = set()
    for j in range(1, n_updates - 1):
        if rng.random() < k["p_suspend"] / 4:
            suspend_starts.add(j)
    closes = rng.random() < k["p_close"]
    state = {"st": "OPEN", "ip": False, "ver": rng.randint(1000, 5000), "bd": 0, "bspr": False}
    if rng.random() < k["first_closed"]:
        state["st"] = "CLOSED"
    pt = t0
    regime = k["spacing"]
    suspended_left = 0
    removed = set()
    for j in range(n_updates):
        if j > 0:
            pt += _spacing(rng, regime, dyadic)
        # market-level transitions
        if state["st"] == "CLOSED" and j > 0:
            state["st"] = "OPEN"
        if suspended_left > 0:
            suspended_left -= 1
            if suspended_left == 0:
                state["st"] = "OPEN"
                if rng.random() < 0.3:
                    state["ver"] += 1
        elif j in suspend_starts and state["st"] == "OPEN":
            state["st"] = "SUSPENDED"
            if rng.random() < k["version_on_suspend"]:
                state["ver"] += rng.randint(1, 3)
            suspended_left = rng.choice([1, 1, 2, 3])
        if j in removals and removals[j] not in removed and len(removed) < n_runners - 1:
            s = removals[j]
            rm = runners[s]
            own_af = rm.af
            rm.status = "REMOVED"
            if not has_factors:
                rm.af = None
            elif s in removal_af and removal_af[s] is not None:
                rm.af = removal_af[s]
            else:
                rm.af = rng.choice([0.0, 1.0, 2.49, 2.5, 2.51, 10.0, 33.3, 60.0, rm.af])
            if has_factors:
                # factors of one market are consistent: removed factor + any other runner's factor <= 100
                others = [runners[x].af for x in sels if x != s and runners[x].af is not None]
                if others and rm.af is not None and rm.af > 99.0 - max(others):
                    rm.af = min(own_af, r2(99.0 - max(others))) if own_af is not None else r2(max(0.0, 99.0 - max(others)))
            removed.add(s)
            state["ver"] += 1
            if rng.random() < 0.5 and state["st"] == "OPEN":
                state["st"] = "SUSPENDED"
                suspended_left = 1
            rm.atb, rm.atl = {}, {}
        if i_inplay is not None and j == i_inplay - 1 and state["st"] == "OPEN" and rng.random() < 0.7:
            state["st"] = "SUSPENDED"
            state["ver"] += 1
            suspended_left = 1
        if i_inplay is not None and j == i_inplay and not state["ip"]:
            state["ip"] = True
            state["st"] = "OPEN"
            suspended_left = 0
            state["ver"] += 1
            state["bd"] = rng.choice([0, 1, 1, 3, 5, 8, 12])
            if bsp and rng.random() < 0.85:
                state["bspr"] = True
                for s in sels:
                    r = runners[s]
                    if r.status == "ACTIVE":
                        base = r.ltp or r.ladder[min(r.c, len(r.ladder) - 1)]
                        r.bsp = rng.choice([r2(base * rng.uniform(0.8, 1.25)), base, r2(base + 0.013)])
                        if r.bsp <= 1.0:
                            r.bsp = 1.01
        for s in sels:
            r = runners[s]
            if r.status == "ACTIVE" and state["st"] == "OPEN":
                r.evolve(k["p_trade"])
        upd = dict(state)
        upd["pt"] = pt
        upd["nar"] = n_runners - len(removed)
        upd["r"] = {str(s): runners[s].snapshot() for s in sels}
        market["updates"].append(upd)
    if closes:
        last_open = copy.deepcopy(market["updates"][-1])
        pt += _spacing(rng, regime, dyadic)
        market["updates"].append(_closing_update(rng, market, market["updates"][-1], pt, k))
        rep = 0
        while rng.random() < k["p_repeat_close"] and rep < 3:
            rep += 1
            pt += _spacing(rng, regime, dyadic)
            u = copy.deepcopy(market["updates"][-1])
            u["pt"] = pt
            u.pop("acts", None)
            u.pop("oacts", None)
            market["updates"].append(u)
        if rng.random() < k["p_reopen_after_close"]:
            # data arrives again: the market is re-opened, later closed again
            for _ in range(rng.randint(1, 3)):
                pt += _spacing(rng, regime, dyadic)
                u = copy.deepcopy(last_open)
                u["pt"] = pt
                u["st"] = "OPEN"
                u["ver"] = market["updates"][-1]["ver"] + 1
                market["updates"].append(u)
            pt += _spacing(rng, regime, dyadic)
            market["updates"].append(_closing_update(rng, market, market["updates"][-1], pt, k))
    market["market_time"] = (
        market["updates"][i_inplay]["pt"] if i_inplay is not None else market["updates"][-1]["pt"] + 60_000
    )
    return market


def _closing_update(rng, market, last, pt, k):
    u = copy.deepcopy(last)
    u["pt"] = pt
    u["st"] = "CLOSED"
    u["ver"] = last["ver"] + 1
    active = [s for s, rs in u["r"].items() if rs["st"] == "ACTIVE"]
    rng.shuffle(active)
    nw = market["winners"]
    if market["market_type"] == "EACH_WAY":
        places = min(len(active), rng.choice([2, 3]))
        for i, s in enumerate(active):
            u["r"][s]["st"] = "WINNER" if i == 0 else "PLACED" if i < places else "LOSER"
    else:
        n_win = nw
        if nw == 1 and rng.random() < k["dead_heat"] and len(active) >= 2:
            n_win = rng.randint(2, len(active))
        for i, s in enumerate(active):
            u["r"][s]["st"] = "WINNER" if i < n_win else "LOSER"
    for rs in u["r"].values():
        rs["atb"], rs["atl"] = [], []
    return u


# --------------------------------------------------------------------------- serialisation


def wire_key(market, s):
    """(selection id, handicap) under which the internal runner key s is published."""
    rk = market.get("rk")
    if rk and str(s) in rk:
        sid, hc = rk[str(s)]
        return sid, hc
    return s, (market.get("hc") or {}).get(str(s), 0)


def internal_key(market, selection_id, handicap):
    rk = market.get("rk")
    if rk:
        for k, (sid, hc) in rk.items():
            if sid == selection_id and hc == (handicap or 0):
                return k
        return None
    return str(selection_id)


def market_definition(market, upd):
    mt = upd.get("mt") or market["market_time"]  # "mt": the market was rescheduled (new marketTime from this update on)
    md = {
        "bspMarket": market["bsp"],
        "turnInPlayEnabled": True,
        "persistenceEnabled": market["persistence_enabled"],
        "marketBaseRate": 5.0,
        "eventId": market["event_id"],
        "eventTypeId": "7",
        "numberOfWinners": market["winners"],
        "bettingType": market["betting_type"],
        "marketType": market["market_type"],
        "marketTime": iso(mt),
        "suspendTime": iso(mt),
        "bspReconciled": upd["bspr"],
        "complete": True,
        "inPlay": upd["ip"],
        "crossMatching": False,
        "runnersVoidable": False,
        "numberOfActiveRunners": upd["nar"],
        "betDelay": upd["bd"],
        "status": upd["st"],
        "runners": [],
        "regulators": ["MR_INT"],
        "countryCode": "GB",
        "discountAllowed": True,
        "timezone": "Europe/London",
        "openDate": iso(mt),
        "version": upd["ver"],
        "name": "sim",
        "eventName": "sim event",
    }
    if market.get("ew_divisor"):
        md["eachWayDivisor"] = market["ew_divisor"]
    if market.get("line"):
        lo, hi, step = market["line"]
        md["lineMinUnit"], md["lineMaxUnit"], md["lineInterval"] = lo, hi, step
    for i, s in enumerate(market["runners"]):
        rs = upd["r"][str(s)]
        sid, hc = wire_key(market, s)
        rd = {"status": rs["st"], "sortPriority": i + 1, "id": sid}
        if hc:
            rd["hc"] = hc
        if rs.get("af") is not None:
            rd["adjustmentFactor"] = rs["af"]
        if rs.get("bsp") is not None:
            rd["bsp"] = rs["bsp"]
        md["runners"].append(rd)
    return md


def _ladder_diff(prev, cur):
    prev_d = {p: s for p, s in prev}
    cur_d = {p: s for p, s in cur}
    out = []
    for p, s in cur:
        if prev_d.get(p) != s:
            out.append([p, s])
    for p, s in prev:
        if p not in cur_d:
            out.append([p, 0])
    return out


def serialise_lines(market):
    """Abstract history -> list of mcm JSON lines (one per update)."""
    lines = []
    prev = None
    prev_md = None
    for j, upd in enumerate(market["updates"]):
        mc = {"id": market["id"]}
        md = market_definition(market, upd)
        if prev_md is None or md != prev_md:
            mc["marketDefinition"] = md
            prev_md = md
        rc = []
        for s in market["runners"]:
            cur = upd["r"][str(s)]
            old = prev["r"][str(s)] if prev else {"atb": [], "atl": [], "trd": [], "ltp": None}
            ch = {}
            for key in ("atb", "atl", "trd"):
                d = _ladder_diff(old[key], cur[key])
                if d:
                    ch[key] = d
            if cur["ltp"] != old["ltp"] and cur["ltp"] is not None:
                ch["ltp"] = cur["ltp"]
            if ch:
                sid, hc = wire_key(market, s)
                ch["id"] = sid
                if hc:
                    ch["hc"] = hc
                ch["tv"] = r2(sum(c for _, c in cur["trd"]))
                rc.append(ch)
        if rc:
            mc["rc"] = rc
        lines.append(json.dumps({"op": "mcm", "clk": "c%d" % j, "pt": upd["pt"], "mc": [mc]}))
        prev = upd
    return lines


def file_path(market):
    return "/sim/%s" % market["id"]


def image_line(market, j):
    """Full image of update j (what a fresh subscription receives)."""
    upd = market["updates"][j]
    rc = []
    for s in market["runners"]:
        cur = upd["r"][str(s)]
        sid, hc = wire_key(market, s)
        ch = {"id": sid, "atb": cur["atb"], "atl": cur["atl"], "trd": cur["trd"], "tv": r2(sum(c for _, c in cur["trd"]))}
        if cur["ltp"] is not None:
            ch["ltp"] = cur["ltp"]
        if hc:
            ch["hc"] = hc
        for k in ("atb", "atl", "trd"):
            if not ch[k]:
                del ch[k]
        rc.append(ch)
    mc = {"id": market["id"], "img": True, "marketDefinition": market_definition(market, upd), "rc": rc}
    return json.dumps({"op": "mcm", "clk": "c%d" % j, "pt": upd["pt"], "mc": [mc]})
