"""simkit - deterministic simulation + fault injection harness for flumine (see /verif/DESIGN.md)."""
