"""Check driver: seeded search over scenarios on all cores, shrinking, replay files, evidence."""
import argparse
import faulthandler
import importlib
import json
import multiprocessing
import os
import sys
import time
import traceback
from collections import Counter
from concurrent.futures import ProcessPoolExecutor, as_completed

from . import rt, core

CHUNK = 100


def load_check(cid):
    return importlib.import_module("simkit.checks.%s" % cid)


def _empty_agg():
    return {
        "evaluations": 0,
        "runs": 0,
        "nontrivial_digests": set(),
        "digests": set(),
        "states": set(),
        "probes": Counter(),
        "faults": Counter(),
        "sim_seconds": 0.0,
        "steps": 0,
        "discarded": Counter(),
        "harness_errors": [],
        "violations": [],  # (index, violation, scenario)
        "samples": [],
        "known_seen": Counter(),
    }


def _merge(a, b):
    a["evaluations"] += b["evaluations"]
    a["runs"] += b["runs"]
    a["nontrivial_digests"] |= b["nontrivial_digests"]
    a["digests"] |= b["digests"]
    a["states"] |= b["states"]
    a["probes"].update(b["probes"])
    a["faults"].update(b["faults"])
    a["sim_seconds"] += b["sim_seconds"]
    a["steps"] += b["steps"]
    a["discarded"].update(b["discarded"])
    a["harness_errors"] += b["harness_errors"][: max(0, 5 - len(a["harness_errors"]))]
    a["violations"] += b["violations"]
    if len(a["samples"]) < 3:
        a["samples"] += b["samples"][: 3 - len(a["samples"])]


def execute(chk, scenario):
    """One evaluation. A scenario marked `_repeat: 2` is executed twice in this process: the second execution must behave
    like the first (nothing may survive a run in module-, class-level or otherwise shared storage of the system under test);
    the oracles judge the second execution exactly as they judged the first."""
    res = chk.execute(scenario)
    n = scenario.get("_repeat", 1) if isinstance(scenario, dict) else 1
    for _ in range(max(0, n - 1)):
        if res.violations or res.harness_error or res.discarded:
            break
        res2 = chk.execute(scenario)
        res2.runs += res.runs
        res2.faults["process.same_scenario_executed_again_in_the_same_process"] += 1
        if res2.digest != res.digest:
            res2.probes["repeat.second_execution_in_the_same_process_differs"] += 1
        for v in res2.violations:
            v["details"]["second_execution_in_the_same_process"] = True
        res = res2
    return res


def _worker(args):
    cid, base_seed, tier, start, stop, deadline = args
    faulthandler.enable()
    chk = load_check(cid)
    agg = _empty_agg()
    seen_v = Counter()
    for i in range(start, stop):
        if time.time() > deadline:
            break
        rng = core.rng_for(base_seed, cid, i)
        try:
            scenario = chk.generate(rng, i, tier)
            if i % 25 == 3 and isinstance(scenario, dict):
                scenario["_repeat"] = 2
            res = execute(chk, scenario)
        except core.SimulationAbort:
            raise
        except Exception:
            agg["harness_errors"].append("seed index %d: %s" % (i, traceback.format_exc()))
            agg["evaluations"] += 1
            continue
        agg["evaluations"] += 1
        agg["runs"] += res.runs
        agg["probes"].update(res.probes)
        agg["faults"].update(res.faults)
        agg["sim_seconds"] += res.sim_seconds
        agg["steps"] += res.steps
        agg["states"] |= res.states
        if res.digest:
            agg["digests"].add(res.digest[:16])
        if res.harness_error:
            if len(agg["harness_errors"]) < 5:
                agg["harness_errors"].append("seed index %d: %s" % (i, res.harness_error))
            continue
        if res.discarded:
            agg["discarded"][res.discarded] += 1
            continue
        if res.nontrivial:
            agg["nontrivial_digests"].add(core.jdigest(scenario)[:16])
            if len(agg["samples"]) < 1:
                agg["samples"].append(chk.sample_view(scenario))
        for v in res.violations:
            if v["property"] != cid:
                agg["probes"]["foreign-violation:%s" % v["clause"]] += 1
                continue
            k = core.vkey(v)
            seen_v[k] += 1
            if seen_v[k] <= 2:
                agg["violations"].append((i, v, scenario))
            else:
                agg["probes"]["violation-repeat:%s|%s" % (v["clause"], v["site"])] += 1
    return agg


def run_search(cid, tier, base_seed, budget, workers):
    n_runs, wall = budget["runs"], budget["wall"]
    t0 = time.time()
    deadline = t0 + wall
    agg = _empty_agg()
    chunk = max(1, min(CHUNK, n_runs // (workers * 4)))
    jobs = [(cid, base_seed, tier, s, min(s + chunk, n_runs), deadline) for s in range(0, n_runs, chunk)]
    ctx = multiprocessing.get_context("fork")
    with ProcessPoolExecutor(max_workers=workers, mp_context=ctx) as pool:
        futs = [pool.submit(_worker, j) for j in jobs]
        try:
            for f in as_completed(futs, timeout=wall + 120):
                _merge(agg, f.result())
        except Exception:
            agg["harness_errors"].append("pool: " + traceback.format_exc())
            for f in futs:
                f.cancel()
            for p in list(getattr(pool, "_processes", {}).values()):
                try:
                    p.kill()
                except Exception:
                    pass
    return agg


def _replay_path(cid, v, idx):
    d = os.path.join(rt.VERIF_ROOT, "replays", cid)
    os.makedirs(d, exist_ok=True)
    safe = "".join(c if c.isalnum() or c in "-_." else "_" for c in "%s-%s" % (v["clause"], v["site"]))[:80]
    return os.path.join(d, "%s-%d.json" % (safe, idx))


def _still_fails(chk, v):
    want = core.vkey(v)

    def test(scenario):
        try:
            res = execute(chk, scenario)
        except Exception:
            return False
        if res.harness_error:
            return False
        return any(core.vkey(x) == want for x in res.violations)

    return test


def write_replay(chk, cid, base_seed, idx, v, scenario, shrink_budget):
    test = _still_fails(chk, v)
    minimised = scenario
    if shrink_budget > 0 and hasattr(chk, "shrink"):
        try:
            minimised = chk.shrink(scenario, test, time.time() + shrink_budget)
        except Exception:
            minimised = scenario
    res = execute(chk, minimised)
    vv = [x for x in res.violations if core.vkey(x) == core.vkey(v)]
    final = vv[0] if vv else v
    path = _replay_path(cid, v, idx)
    with open(path, "w") as f:
        json.dump(
            {
                "check": cid,
                "base_seed": base_seed,
                "seed_index": idx,
                "violation": final,
                "digest": res.digest,
                "scenario": minimised,
            },
            f,
            indent=1,
            sort_keys=True,
            default=str,
        )
    return path, final


def verify_replay(cid, path):
    """Replays the file in a fresh interpreter: it must fail the same way with the same event-log digest."""
    import subprocess

    try:
        p = subprocess.run([sys.executable, os.path.join(rt.VERIF_ROOT, "check"), cid, "--replay", path], stdout=subprocess.PIPE, stderr=subprocess.STDOUT, text=True, timeout=300)
    except Exception as e:
        return "replay NOT verified (%s)" % e
    same = "digest" in p.stdout and "): match" in p.stdout
    if p.returncode == 1 and same:
        return "replay verified in a fresh process: same violation, same event-log digest"
    return "replay NOT verified: exit=%d digest_match=%s" % (p.returncode, same)


def do_replay(cid, path):
    chk = load_check(cid)
    data = json.load(open(path))
    res = execute(chk, data["scenario"])
    want = data.get("violation")
    if res.harness_error:
        print("HARNESS-ERROR: %s" % res.harness_error)
        return 2
    for v in res.violations:
        print("violation: %s" % json.dumps(v, sort_keys=True, default=str))
    if data.get("digest") is not None:
        print("digest %s (recorded %s): %s" % (res.digest[:16], str(data["digest"])[:16], "match" if res.digest == data["digest"] else "DIFFERENT"))
    if want:
        hit = [v for v in res.violations if (v["property"], v["clause"]) == (want["property"], want["clause"])]
        if hit:
            print("VIOLATION property=%s replay=%s" % (cid, path))
            return 1
        print("recorded violation %s/%s did not reproduce" % (want["property"], want["clause"]))
        return 0
    if res.violations:
        print("VIOLATION property=%s replay=%s" % (cid, path))
        return 1
    return 0


def run_corpus(chk, cid, agg, known):
    d = os.path.join(rt.VERIF_ROOT, "corpus", cid)
    out = []
    if not os.path.isdir(d):
        return out
    for name in sorted(os.listdir(d)):
        if not name.endswith(".json"):
            continue
        path = os.path.join(d, name)
        data = json.load(open(path))
        res = execute(chk, data["scenario"])
        agg["evaluations"] += 1
        agg["runs"] += res.runs
        agg["probes"]["corpus.replayed"] += 1
        if res.harness_error:
            agg["harness_errors"].append("corpus %s: %s" % (name, res.harness_error))
            continue
        for v in res.violations:
            out.append((path, v, data["scenario"]))
    return out


def main(argv=None):
    argv = list(sys.argv[1:] if argv is None else argv)
    if argv and argv[0] == "selftest":
        from . import selftest

        return selftest.main(argv[1:])
    ap = argparse.ArgumentParser()
    ap.add_argument("check")
    ap.add_argument("--tier", default=os.environ.get("VERIF_TIER") or "quick")
    ap.add_argument("--seed", type=int, default=None)
    ap.add_argument("--replay", default=None)
    ap.add_argument("--runs", type=int, default=None)
    ap.add_argument("--wall", type=float, default=None)
    ap.add_argument("--workers", type=int, default=None)
    ap.add_argument("--no-shrink", action="store_true")
    args = ap.parse_args(argv)
    cid = args.check
    seed = args.seed if args.seed is not None else int(os.environ.get("VERIF_SEED") or 0)
    tier = args.tier if args.tier in ("quick", "thorough") else "quick"
    print("check=%s tier=%s VERIF_SEED=%d repo=%s" % (cid, tier, seed, rt.repo_root()), flush=True)
    if args.replay:
        return do_replay(cid, args.replay)
    chk = load_check(cid)
    budget = dict(chk.BUDGET[tier])
    if args.runs:
        budget["runs"] = args.runs
    if args.wall:
        budget["wall"] = args.wall
    workers = args.workers or min(16, os.cpu_count() or 4)
    known = core.KnownFindings()
    t0 = time.time()
    pre = _empty_agg()
    corpus_v = run_corpus(chk, cid, pre, known)
    agg = run_search(cid, tier, seed, budget, workers)
    _merge(agg, pre)
    all_v = [(None, v, sc, path) for (path, v, sc) in corpus_v] + [(i, v, sc, None) for (i, v, sc) in agg["violations"]]
    reported = {}
    new_violations = 0
    shrink_budget = 0 if args.no_shrink else (25 if tier == "quick" else 60)
    for idx, v, sc, path in sorted(all_v, key=lambda x: (x[0] is None, x[0] or 0)):
        k = core.vkey(v)
        e = known.match(v)
        if e is not None:
            agg["known_seen"]["%s|%s|%s" % k] += 1
            if ("known", id(e)) not in reported:
                reported[("known", id(e))] = True
                print("KNOWN-FINDING: property=%s %s [%s at %s]" % (v["property"], e["description"], v["clause"], v["site"]))
            continue
        if k in reported:
            continue
        reported[k] = True
        new_violations += 1
        if path is None:
            path, final = write_replay(chk, cid, seed, idx, v, sc, shrink_budget if new_violations <= 4 else 0)
        else:
            final = v
        print("VIOLATION property=%s replay=%s" % (v["property"], path))
        print("  clause=%s site=%s details=%s" % (final["clause"], final["site"], json.dumps(final["details"], sort_keys=True, default=str)[:600]))
        if new_violations <= 4 and not os.environ.get("VERIF_NO_REPLAY_VERIFY"):
            print("  " + verify_replay(cid, path))
    wall = time.time() - t0
    core.write_evidence(
        cid,
        tier,
        seed,
        chk.LEVEL,
        agg,
        chk.RULE,
        chk.ASSUMPTIONS,
        chk.COMPONENTS,
        wall,
        new_violations,
        extra=getattr(chk, "evidence_extra", lambda a: None)(agg),
    )
    print(
        "evaluations=%d runs=%d nontrivial=%d violations=%d known=%d discarded=%d harness_errors=%d wall=%.1fs"
        % (
            agg["evaluations"],
            agg["runs"],
            len(agg["nontrivial_digests"]),
            new_violations,
            sum(agg["known_seen"].values()),
            sum(agg["discarded"].values()),
            len(agg["harness_errors"]),
            wall,
        ),
        flush=True,
    )
    if new_violations:
        return 1
    if agg["harness_errors"]:
        for h in agg["harness_errors"][:3]:
            print("HARNESS-ERROR: %s" % h)
        return 2
    if agg["evaluations"] < 1 or len(agg["nontrivial_digests"]) < 2:
        print("HARNESS-ERROR: search did not reach the property (evaluations=%d, non-trivial=%d)" % (agg["evaluations"], len(agg["nontrivial_digests"])))
        return 2
    return 0
