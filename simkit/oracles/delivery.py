"""C14 in-process clauses: exactly-once delivery vs. an independent re-statement of the listener filters,
chronological merge, clock in callbacks."""
import datetime

from ..backtest import Monitor
from .matching import to_ms


def expected_updates(market, lk):
    """Indices of the updates of `market` that pass the listener filters (non-OPEN updates always pass)."""
    inplay = lk.get("inplay")
    sts = lk.get("seconds_to_start")
    mis = lk.get("max_inplay_seconds")
    out = []
    prev_ip = None
    ip_pt = None
    for j, u in enumerate(market["updates"]):
        pt = u["pt"]
        mt = ((u.get("mt") or market["market_time"]) // 1000) * 1000  # marketTime (second resolution) in force at this update
        if mis is not None and u["ip"] and not prev_ip:
            ip_pt = pt
        active = True
        if u["st"] == "OPEN":
            if inplay:
                if not u["ip"]:
                    active = False
            elif sts:
                if (mt - pt) / 1000.0 > sts:
                    active = False
            if inplay is False:
                if u["ip"]:
                    active = False
            if mis is not None and ip_pt is not None:
                if (pt - ip_pt) / 1000 > mis:
                    active = False
        prev_ip = u["ip"]
        if active:
            out.append(j)
    return out


class DeliveryMonitor(Monitor):
    P = "C14"

    def __init__(self, run):
        super().__init__(run)
        self.seq = []  # (market id, pt) as processed by the framework

    def on_update_start(self, mid, j, mb):
        self.seq.append((mid, mb.publish_time_epoch, j))
        # the book that is delivered IS the update in the data: ladders, traded volume and status of every active runner
        # equal the generator's state at that update (also for the first book after a stretch removed by the filters)
        if j is None or mb.status == "CLOSED":
            return
        from .. import marketgen

        market = self.run.markets_by_id[mid]
        u = market["updates"][j]
        by = {(r.selection_id, r.handicap or 0): r for r in mb.runners}
        for s in market["runners"]:
            rs = u["r"][str(s)]
            if rs["st"] != "ACTIVE":
                continue
            sid, hc = marketgen.wire_key(market, s)
            r = by.get((sid, hc or 0))
            if r is None:
                self.violate(self.P, "C14.exactly-once", "delivered-book-lacks-an-active-runner", market=mid, update=j, runner=[sid, hc])
                continue
            for key, attr in (("atb", "available_to_back"), ("atl", "available_to_lay"), ("trd", "traded_volume")):
                got = [(x["price"], x["size"]) for x in getattr(r.ex, attr)]
                want = {p: c for p, c in rs[key]}
                bad = dict(got) != want or len(got) != len(want)
                if not bad and key == "atb" and got and got[0][0] != max(want):
                    bad = True
                if not bad and key == "atl" and got and got[0][0] != min(want):
                    bad = True
                if bad:
                    self.violate(self.P, "C14.exactly-once", "delivered-book-differs-from-the-update-in-the-data:%s" % key, market=mid, update=j, runner=[sid, hc], delivered=got[:6], data=sorted(want.items())[:6], listener_kwargs=(self.run.scenario["strategies"][0].get("listener_kwargs") or {}))
                    return
        self.res.probes["c14.delivered_books_compared_with_data"] += 1

    def on_strategy_call(self, strategy, market, kind):
        un = to_ms(datetime.datetime.utcnow())
        if un != self.run.now_ms:
            self.violate(self.P, "C14.clock", "callback:%s" % kind, utcnow=un, publish_time=self.run.now_ms)

    def on_strategy_closed(self, strategy, market, mb):
        un = to_ms(datetime.datetime.utcnow())
        if un != self.run.now_ms:
            self.violate(self.P, "C14.clock", "callback:closed", utcnow=un, publish_time=self.run.now_ms)

    def on_end(self):
        sc = self.run.scenario
        pr = self.res.probes
        # per strategy: what it saw vs. what the data + filters say it must see
        if getattr(self.run, "same_pt", None):
            self.res.probes["c14.two_updates_of_a_market_with_one_publish_time"] += 1
        aborted = bool(self.res.probes.get("run.aborted_by_injection"))
        for agent, ss in zip(self.run.agents, sc["strategies"]):
            if aborted:
                break  # the run was ended on purpose by an exception (raise_errors): nothing more is delivered
            lk = ss.get("listener_kwargs") or {}
            seen = [(k, m, pt) for (k, m, pt) in agent.calls if k in ("check", "closed")]
            for mi in ss["markets"]:
                market = sc["markets"][mi]
                mid = market["id"]
                exp_idx = expected_updates(market, lk)
                if lk.get("seconds_to_start") and any(u.get("mt") for u in market["updates"]):
                    pr["c14.seconds_to_start_with_rescheduled_market"] += 1
                    if exp_idx != expected_updates(dict(market, updates=[{k: v for k, v in u.items() if k != "mt"} for u in market["updates"]]), lk):
                        pr["c14.reschedule_changes_the_filtered_set"] += 1
                if len(exp_idx) < len(market["updates"]):
                    self.res.nontrivial = True
                    pr["c14.filter_removed_updates"] += 1
                    for kname in ("inplay", "seconds_to_start", "max_inplay_seconds"):
                        if lk.get(kname) is not None:
                            pr["c14.filter.%s" % kname] += 1
                exp = []
                known = False
                for j in exp_idx:
                    u = market["updates"][j]
                    if u["st"] == "CLOSED":
                        if known:
                            exp.append(("closed", mid, u["pt"]))
                    else:
                        known = True
                        exp.append(("check", mid, u["pt"]))
                got = [x for x in seen if x[1] == mid]
                if got != exp and sc.get("own_streams") and not known:
                    # strategies on streams of their own: the market object may exist thanks to the OTHER stream, so the
                    # closing update that passes this strategy's filters closes it (alone it has no market to close)
                    alt = exp + [("closed", mid, market["updates"][j]["pt"]) for j in exp_idx if market["updates"][j]["st"] == "CLOSED"]
                    if got == alt:
                        pr["c14.closed_callback_for_market_known_through_another_stream"] += 1
                        got = exp
                if got != exp:
                    missing = [x for x in exp if x not in got]
                    extra = [x for x in got if x not in exp]
                    dup = len(got) != len(set(got))
                    site = "update-delivered-twice" if dup else "update-not-delivered" if missing and not extra else "filtered-update-delivered" if extra and not missing else "sequence-differs"
                    self.violate(self.P, "C14.exactly-once", site, strategy=agent.name, market=mid, listener_kwargs=lk, missing=missing[:4], extra=extra[:4], expected=len(exp), got=len(got))
        # chronological / grouping
        pos = {}
        for k, (mid, pt, j) in enumerate(self.seq):
            pos.setdefault(mid, []).append((k, pt))
        for mid, lst in pos.items():
            pts = [pt for _, pt in lst]
            if pts != sorted(pts):
                self.violate(self.P, "C14.chronological", "market-own-order-not-preserved", market=mid)
        groups = {}
        grouped = any(ss.get("event_processing") for ss in sc["strategies"])
        for m in sc["markets"]:
            g = None
            if grouped:
                eg = {}
                for ss in sc["strategies"]:
                    eg.update(ss.get("event_groups") or {})
                g = eg.get(m["event_id"], m["event_id"])
            groups.setdefault(g if grouped else ("single", m["id"]), []).append(m["id"])
        for g, mids in groups.items():
            ks = [(k, pt, mid) for k, (mid, pt, j) in enumerate(self.seq) if mid in mids]
            if len(mids) > 1:
                pts = [pt for _, pt, _ in ks]
                if len(set(m for _, _, m in ks)) > 1:
                    inter = any(a[2] != b[2] for a, b in zip(ks, ks[1:]))
                    if inter:
                        self.res.nontrivial = True
                        pr["c14.interleaved_event_group"] += 1
                    if len(set(pts)) < len(pts):
                        pr["c14.identical_publish_times_across_markets"] += 1
                if pts != sorted(pts):
                    k = next(i for i in range(len(pts) - 1) if pts[i] > pts[i + 1])
                    self.violate(self.P, "C14.chronological", "event-group-not-in-publish-time-order", group=str(g), at=[list(ks[k]), list(ks[k + 1])])
            # contiguity: nothing from another group in between
            if ks:
                lo, hi = ks[0][0], ks[-1][0]
                foreign = [self.seq[k][0] for k in range(lo, hi + 1) if self.seq[k][0] not in mids]
                if foreign:
                    self.violate(self.P, "C14.chronological", "groups-interleaved", group=str(g), foreign=sorted(set(foreign)))
        if self.res.probes.get("clock.not_restored"):
            self.violate(self.P, "C14.restore", "datetime-not-restored-after-run", aborted=bool(self.res.probes.get("run.aborted_by_injection")))
        if self.res.probes.get("run.aborted_by_injection"):
            pr["c14.aborted_run"] += 1
