"""C05 / C06 / C07 oracles: fills versus limit and generator book, passive-liquidity ledger,
latency / bet-delay / time stamps."""
import calendar
import datetime

from ..backtest import Monitor
from .ledger import is_limit

EPS = 1e-9
DEFAULT_LAT = {"PLACE": 0.12, "CANCEL": 0.17, "UPDATE": 0.15, "REPLACE": 0.28}
LAT_KEY = {"PLACE": "place_latency", "CANCEL": "cancel_latency", "UPDATE": "update_latency", "REPLACE": "replace_latency"}
LIVE = ("EXECUTABLE", "CANCELLING", "UPDATING", "REPLACING")


def to_ms(dt):
    return calendar.timegm(dt.timetuple()) * 1000 + dt.microsecond // 1000


def ref_match(side, price, size, levels):
    """Reference matcher: level by level, best first, while the level satisfies the limit."""
    out = []
    rem = size
    for p, s in levels:
        if rem <= 0:
            break
        if (side == "BACK" and p >= price) or (side == "LAY" and p <= price):
            take = min(rem, s)
            out.append((p, round(take, 2)))
            rem = max(rem - s, 0)
        else:
            break
    return out


class PackageTracker(Monitor):
    """Shared bookkeeping (no verdicts): requests in flight with oracle-computed delay."""

    def __init__(self, run):
        super().__init__(run)
        self.inflight = {}  # id(pkg) -> record
        run.tracker = self
        self.dyadic = bool(run.scenario.get("dyadic"))
        self.arrival = {}  # vid -> (mid, j_exec) update at which the order became live at the exchange
        self.queue_ahead = {}  # vid -> size shown at own price on the joined ladder in the executed-against book
        self.pre_update = {}  # vid -> (persistence, remaining, simulated market version) right before an update request

    def on_request_before(self, kind, txn, order, a, k):
        if kind == "UPDATE":
            try:
                self.pre_update[order._vid] = (getattr(order.order_type, "persistence_type", None), order.size_remaining, order.simulated.market_version)
            except Exception:
                pass

    def delay_for(self, kind, mid):
        cfg = self.run.scenario.get("cfg", {})
        lat = cfg.get(LAT_KEY[kind], DEFAULT_LAT[kind])
        bd = 0
        if kind in ("PLACE", "REPLACE"):
            st = self.run.held_state(mid)
            bd = st["bd"] if st else 0
        return lat + bd, lat, bd

    def on_package(self, pkg):
        kind = pkg.package_type.name
        mid = pkg.market_id
        d, lat, bd = self.delay_for(kind, mid)
        self.inflight[id(pkg)] = {
            "pkg": pkg,
            "kind": kind,
            "mid": mid,
            "t_req": self.run.now_ms,
            "d": d,
            "lat": lat,
            "bd": bd,
            "orders": list(pkg._orders),
            "between": 0,
            "req_index": self.run.cur_index.get(mid) if self.run.cur_pt.get(mid) == self.run.now_ms else None,
        }

    def record(self, pkg):
        return self.inflight.get(id(pkg))

    def on_exec_after(self, pkg):
        self.inflight.pop(id(pkg), None)


class LatencyMonitor(Monitor):
    """C07"""

    P = "C07"

    def __init__(self, run):
        super().__init__(run)
        self.t = run.tracker

    def _boundary(self, elapsed_s, d, rec=None):
        """-1 before (or exactly at) the delay, +1 after it, 0 = float-fragile boundary where either verdict is accepted.
        The statement is exact ("more than the configured latency"): publish times are whole milliseconds, so an update
        exactly latency (+ bet delay) after the request is NOT after it.  Only where the delay itself is a float sum that
        cannot be represented (0.12 + 5 is not 5.12) the comparison of the implementation may legitimately fall either
        way: that case - exact decimal arithmetic and plain float arithmetic disagree - is the only one left open."""
        if elapsed_s > d + 1e-6:
            return 1
        if elapsed_s < d - 1e-6:
            return -1
        if rec is None:
            return 0
        from decimal import Decimal

        elapsed_ms = int(round(elapsed_s * 1000.0))
        exact = Decimal(elapsed_ms) - (Decimal(repr(float(rec["lat"]))) + Decimal(repr(float(rec["bd"])))) * 1000
        plain = (elapsed_ms / 1000.0) > (rec["lat"] + rec["bd"])
        if exact <= 0 and not plain:
            return -1
        if exact > 0 and plain:
            return 1
        return 0

    def on_exec_before(self, pkg):
        rec = self.t.record(pkg)
        if rec is None:
            return
        now = self.run.now_ms
        elapsed = (now - rec["t_req"]) / 1000.0
        b = self._boundary(elapsed, rec["d"], rec)
        if b < 0 or (b == 0 and self.t.dyadic):
            self.violate(self.P, "C07.not-early", "executed-before-delay:%s" % rec["kind"], elapsed=elapsed, delay=rec["d"], latency=rec["lat"], bet_delay=rec["bd"], t_req=rec["t_req"], now=now)
        if b == 0:
            self.res.probes["c07.exact_boundary"] += 1
        if rec["between"] > 0:
            self.res.nontrivial = True
            self.res.probes["c07.effective_not_next_update"] += 1
        if rec["bd"]:
            self.res.probes["c07.with_bet_delay"] += 1
        if rec["lat"] == 0:
            self.res.probes["c07.zero_latency"] += 1
        if rec["req_index"] is None:
            self.res.probes["c07.request_between_updates_of_market"] += 1
        rec["exec_now"] = now
        # clock seen by the execution must be the publish time of the update being processed
        un = to_ms(datetime.datetime.utcnow())
        if un != now:
            self.violate(self.P, "C07.stamps", "clock-during-execution", utcnow=un, publish_time=now)
        rec["pre_status"] = {o._vid: (o.status.name if o.status else None) for o in rec["orders"]}

    def on_exec_after(self, pkg):
        rec = self.t.record(pkg)
        if rec is None or "exec_now" not in rec:
            return
        now = rec["exec_now"]
        for o in rec["orders"]:
            if rec["kind"] == "PLACE":
                dtp = o.responses.date_time_placed
                if dtp is not None:
                    ms = to_ms(dtp)
                    if ms != now or self._boundary((ms - rec["t_req"]) / 1000.0, rec["d"]) < 0:
                        self.violate(self.P, "C07.stamps", "date_time_placed", placed=ms, now=now, t_req=rec["t_req"], delay=rec["d"])
                created = to_ms(o.date_time_created)
                if created > rec["t_req"]:
                    self.violate(self.P, "C07.stamps", "date_time_created-after-request", created=created, t_req=rec["t_req"])
            if rec["kind"] == "CANCEL" and o.responses.cancel_responses:
                r = o.responses.cancel_responses[-1]
                if getattr(r, "cancelled_date", None) is not None and to_ms(r.cancelled_date) != now:
                    self.violate(self.P, "C07.stamps", "cancelled_date", cancelled=to_ms(r.cancelled_date), now=now)
            if o.status is not None and o.status.name != rec["pre_status"].get(o._vid):
                su = to_ms(o.date_time_status_update)
                if su != now:
                    self.violate(self.P, "C07.stamps", "status-update-time", status_time=su, now=now, status=o.status.name)
            for m in o.simulated.matched:
                if m[0] and (m[0] > now):
                    self.violate(self.P, "C07.stamps", "fragment-from-the-future", fragment=list(m), now=now)

    def on_update_end(self, mid, j, mb):
        now = self.run.now_ms
        for rec in list(self.t.inflight.values()):
            if rec["mid"] != mid:
                continue
            elapsed = (now - rec["t_req"]) / 1000.0
            b = self._boundary(elapsed, rec["d"], rec)
            if abs(elapsed - rec["d"]) <= 1e-6 and now != rec["t_req"]:
                self.res.probes["c07.update_exactly_at_the_delay%s" % ("" if b else ":float-fragile")] += 1
            if not (now == rec["t_req"] and rec["req_index"] == j):
                if b > 0:
                    self.violate(self.P, "C07.not-late", "not-executed-at-effective-update:%s" % rec["kind"], elapsed=elapsed, delay=rec["d"], t_req=rec["t_req"], now=now)
                else:
                    rec["between"] += 1
            # while waiting: new orders pending without fills, others keep their in-flight status
            for o in rec["orders"]:
                st = o.status.name if o.status else None
                if rec["kind"] == "PLACE":
                    if st not in ("PENDING",) and not (st == "EXECUTION_COMPLETE" and o.simulated.size_voided > 0):
                        self.violate(self.P, "C07.not-early", "placed-order-left-pending-early", status=st)
                    if o.simulated.matched:
                        self.violate(self.P, "C07.not-early", "fill-before-arrival", matched=[list(x) for x in o.simulated.matched])
                else:
                    want = {"CANCEL": "CANCELLING", "UPDATE": "UPDATING", "REPLACE": "REPLACING"}[rec["kind"]]
                    if st not in (want, "EXECUTION_COMPLETE"):
                        self.violate(self.P, "C07.not-early", "in-flight-status-changed-early:%s" % rec["kind"], status=st)
                    if rec["kind"] == "UPDATE" and is_limit(o) and b <= 0:
                        # until the update takes effect the order must behave as before: a LAPSE order still lapses on a
                        # suspension with a version change, a PERSIST order does not
                        old = self.t.pre_update.get(o._vid, (None, 0, None))[0]
                        stt = self.run.state(mid, j) if j is not None else None
                        seen = rec.setdefault("susp_seen", {})
                        ver_before = rec.setdefault("ver_before", {}).get(o._vid, self.t.pre_update.get(o._vid, (None, 0, None))[2])
                        rec["ver_before"][o._vid] = o.simulated.market_version
                        if old is not None and stt is not None and stt["st"] == "SUSPENDED" and stt["ver"] != ver_before and o._vid not in seen and not (now == rec["t_req"] and rec["req_index"] == j):
                            seen[o._vid] = True
                            lapsed = o.simulated.size_lapsed > 0
                            had = self.t.pre_update.get(o._vid, (None, 0, None))[1] > 0 and o.simulated.size_matched < o.order_type.size
                            if had and old == "LAPSE" and not lapsed and o.size_remaining > 0:
                                self.violate(self.P, "C07.not-early", "update-of-persistence-effective-before-latency", order=o._vid, old=old, new=o.order_type.persistence_type, elapsed=elapsed, delay=rec["d"])
                            if had and old in ("PERSIST", "MARKET_ON_CLOSE") and lapsed:
                                self.violate(self.P, "C07.not-early", "update-of-persistence-effective-before-latency", order=o._vid, old=old, new=o.order_type.persistence_type, elapsed=elapsed, delay=rec["d"])
                            self.res.probes["c07.suspension_inside_update_latency"] += 1

    def on_strategy_call(self, strategy, market, kind):
        un = to_ms(datetime.datetime.utcnow())
        if un != self.run.now_ms:
            self.violate(self.P, "C07.clock", "callback:%s" % kind, utcnow=un, publish_time=self.run.now_ms)
        self.res.probes["c07.clock_samples"] += 1


class FillMonitor(Monitor):
    """C05 (+ the book clause of C07): fragments vs. limit and vs. the generator's own book."""

    P = "C05"

    def __init__(self, run):
        super().__init__(run)
        self.t = run.tracker
        self.nfrag = {}
        self.fok_done = {}  # vid -> number of fragments right after the placement response
        self.created = None
        self.clients_spec = run.scenario.get("clients") or [{}]

    def _client_spec(self, order):
        try:
            i = self.run.clients.index(order.client)
        except ValueError:
            i = 0
        return self.clients_spec[i]

    def on_order_created(self, order):
        if self.created is not None:
            self.created.append(order)

    def on_exec_before(self, pkg):
        self.created = []
        self.pre = {o._vid: len(o.simulated.matched) for o in pkg._orders}
        # the book that prevailed immediately before the update being processed: the last update that
        # was fully processed for this market (NOT "whatever flumine holds now" - that would hide a look-ahead)
        self.book_index = self.run.last_delivered.get(pkg.market_id)
        self.book = self.run.state(pkg.market_id, self.book_index) if self.book_index is not None else None

    def on_exec_after(self, pkg):
        kind = pkg.package_type.name
        created, self.created = self.created or [], None
        if kind == "PLACE":
            targets = [(o, self.pre.get(o._vid, 0)) for o in pkg._orders]
        elif kind == "REPLACE":
            targets = [(o, 0) for o in created]
        else:
            targets = []
        book = self.book
        for o, n0 in targets:
            if not is_limit(o):
                continue
            frags = o.simulated.matched[n0:]
            self.nfrag[o._vid] = len(o.simulated.matched)
            self._check_placement(o, frags, book, kind)
        # other packages must not create fragments
        if kind in ("CANCEL", "UPDATE"):
            for o in pkg._orders:
                if len(o.simulated.matched) != self.pre.get(o._vid, 0):
                    self.violate(self.P, "C05.limit", "fragment-created-by-%s" % kind.lower(), order=o._vid)

    def _check_placement(self, o, frags, book, kind):
        ot = o.order_type
        price, size, side = ot.price, ot.size, o.side
        spec = self._client_spec(o)
        full_match = spec.get("full_match", False)
        bpe = spec.get("bpe", True)
        fok = ot.time_in_force == "FILL_OR_KILL"
        resp = o.responses.place_response
        status = getattr(resp, "status", None)
        err = getattr(resp, "error_code", None)
        rs = book["r"].get(str(o.selection_id)) if book else None
        levels = (rs["atb"] if side == "BACK" else rs["atl"]) if rs else []
        best = levels[0][0] if levels else None
        ctx = dict(order=o._vid, side=side, price=price, size=size, fok=fok, min_fill=ot.min_fill_size, frags=[list(f) for f in frags], levels=levels[:6], book_index=self.book_index, kind=kind)
        pr = self.res.probes
        if len(levels) >= 2 and frags:
            self.res.nontrivial = True
        if fok:
            self.res.nontrivial = True
        # -- limit
        tot = sum(f[2] for f in frags)
        if fok and frags:
            # the order's average price is reported (and settled) at 2dp: that figure must satisfy the limit
            vwap = round(sum(f[1] * f[2] for f in frags) / tot, 2) if tot else price
            if (side == "BACK" and vwap < price - 1e-9) or (side == "LAY" and vwap > price + 1e-9):
                self.violate(self.P, "C05.limit", "fok-vwap-worse-than-limit", vwap=vwap, **ctx)
        else:
            for f in frags:
                if (side == "BACK" and f[1] < price - EPS) or (side == "LAY" and f[1] > price + EPS):
                    self.violate(self.P, "C05.limit", "fragment-worse-than-limit", **ctx)
        if tot > size + 0.0051:
            self.violate(self.P, "C05.level", "matched-more-than-size", **ctx)
        # -- level availability (not under simulated_full_match)
        if not full_match and book is not None:
            avail = {p: s for p, s in levels}
            per = {}
            for f in frags:
                per[f[1]] = per.get(f[1], 0.0) + f[2]
            for p, s in per.items():
                if p not in avail or s > avail[p] + 0.0051:
                    self.violate("C07" if self.run.owner == "C07" else self.P, "C07.book" if self.run.owner == "C07" else "C05.level", "took-more-than-level", taken_at=p, taken=s, available=avail.get(p), **ctx)
        # -- fill or kill
        if fok and status == "SUCCESS":
            mf = ot.min_fill_size or size
            m = o.simulated.size_matched
            pr["c05.fok.%s" % ("filled" if m > 0 else "killed")] += 1
            if not full_match and not (m >= mf - EPS or m == 0):
                self.violate(self.P, "C05.fok", "partial-below-min-fill", matched=m, required_min_fill=mf, **ctx)
            if abs(o.size_remaining) > EPS:
                self.violate(self.P, "C05.fok", "fok-rests-in-market", remaining=o.size_remaining, **ctx)
            self.fok_done[o._vid] = len(o.simulated.matched)
        # -- best price execution
        if rs is not None and status is not None and book["st"] == "OPEN" and rs["st"] == "ACTIVE":
            if side == "BACK":
                through = (best if best is not None else 1.01) > price
            else:
                through = (best if best is not None else 1000) < price
            lapsed_pi = err == "BET_LAPSED_PRICE_IMPROVEMENT_TOO_LARGE"
            version_ok = not (o.market_version and o.market_version != book["ver"])
            if version_ok:
                fok_invalid = fok and (ot.min_fill_size or size) > size
                if not bpe and through and not fok_invalid:
                    pr["c05.bpe.through"] += 1
                    if not lapsed_pi or frags or abs(o.simulated.size_lapsed - size) > EPS:
                        self.violate(self.P, "C05.bpe", "price-improved-order-not-lapsed", status=status, error=err, lapsed=o.simulated.size_lapsed, **ctx)
                elif lapsed_pi:
                    self.violate(self.P, "C05.bpe", "lapsed-without-price-improvement", bpe=bpe, best=best, **ctx)
                # reference matcher (probe only unless a clause is broken)
                if status == "SUCCESS" and not full_match and not fok:
                    want = ref_match(side, price, size, levels)
                    got = [(f[1], f[2]) for f in frags]
                    if want != got:
                        pr["c05.ref_matcher_disagrees"] += 1
                    else:
                        pr["c05.ref_matcher_agrees"] += 1
                    if not levels:
                        pr["c05.empty_side"] += 1
                    if levels and levels[0][1] < size and frags:
                        pr["c05.thin_level"] += 1
        # queue ahead for C06 (size shown at own price on the ladder the remainder joins)
        if rs is not None:
            join = rs["atl"] if side == "BACK" else rs["atb"]
            qa = 0.0
            for p, s in join:
                if p == price:
                    qa = s
            self.t.queue_ahead[o._vid] = qa
        self.t.arrival[o._vid] = (o.market_id, self.run.cur_index.get(o.market_id))

    def on_after_matching(self, market):
        for o in market.blotter:
            n = len(o.simulated.matched)
            n0 = self.nfrag.get(o._vid, 0)
            if n > n0 and is_limit(o):
                for f in o.simulated.matched[n0:]:
                    if o.order_type.persistence_type == "MARKET_ON_CLOSE" and o.simulated._bsp_reconciled:
                        continue  # taken to the starting price (its own rule)
                    if (o.side == "BACK" and f[1] < o.order_type.price - EPS) or (o.side == "LAY" and f[1] > o.order_type.price + EPS):
                        self.violate(self.P, "C05.limit", "passive-fragment-worse-than-limit", order=o._vid, fragment=list(f), price=o.order_type.price)
                if o._vid in self.fok_done and any(f[2] > 0 for f in o.simulated.matched[n0:]):
                    self.violate(self.P, "C05.fok", "fok-received-later-fragment", order=o._vid, fragments=[list(f) for f in o.simulated.matched[n0:]])
            self.nfrag[o._vid] = n


class PassiveMonitor(Monitor):
    """C06: independent traded-volume ledger."""

    P = "C06"

    def __init__(self, run):
        super().__init__(run)
        self.t = run.tracker
        self.prev_cum = {}  # (mid, sel) -> {price: cumulative}
        self.delta = {}  # (mid) -> {sel: {price: delta}} for the update being processed
        self.pre = {}
        self.life = {}  # vid -> record for lone-order accounting
        self.isolation = run.scenario.get("cfg", {}).get("isolation", True)

    def _pool(self, o):
        return o.trade.strategy.name if self.isolation else "*"

    def on_before_matching(self, market):
        mid = market.market_id
        st = self.run.held_state(mid)
        deltas = {}
        if st is not None:
            for sel, rs in st["r"].items():
                if rs["st"] != "ACTIVE":
                    continue
                key = (mid, sel)
                cur = {p: c for p, c in rs["trd"]}
                if key not in self.prev_cum:
                    d = {}
                else:
                    prev = self.prev_cum[key]
                    d = {}
                    if cur != prev:
                        for p, c in cur.items():
                            if p in prev:
                                x = round(c - prev[p], 2)
                                if x > 0:
                                    d[p] = x
                            else:
                                d[p] = c
                self.prev_cum[key] = cur
                deltas[sel] = d
        self.delta[mid] = deltas
        self.pre = {}
        for o in market.blotter:
            if is_limit(o) and o.status is not None and o.status.name in LIVE:
                self.pre[o._vid] = (o, len(o.simulated.matched), o.size_remaining, o.simulated._piq)

    def _eligible(self, o, d):
        price = o.order_type.price
        if o.side == "BACK":
            return {p: x for p, x in d.items() if p >= price}
        return {p: x for p, x in d.items() if p <= price}

    def on_after_matching(self, market):
        mid = market.market_id
        deltas = self.delta.get(mid, {})
        st = self.run.held_state(mid)
        j = self.run.held.get(mid)
        pools = {}
        crowd = set()
        for vid, (o, n0, rem0, piq0) in self.pre.items():
            frags = o.simulated.matched[n0:]
            sp_taken = o.order_type.persistence_type == "MARKET_ON_CLOSE" and st is not None and st["bspr"]
            if sp_taken:
                # carried to the starting price: its fills are not passive fills, but it may still take part in the
                # update's matching (e.g. persistence changed after the reconciliation), so nobody beside it is "lone"
                crowd.add((self._pool(o), o.selection_id))
                continue
            fill = round(sum(f[2] for f in frags), 2)
            d = deltas.get(str(o.selection_id), {})
            el = self._eligible(o, d)
            arr = self.t.arrival.get(vid)
            if frags and not el:
                self.violate(self.P, "C06.after-arrival", "fill-without-eligible-volume", order=vid, frags=[list(f) for f in frags], delta=d, price=o.order_type.price, side=o.side, update=j)
            if frags and arr is not None and j is not None and arr[1] is not None and j < arr[1]:
                self.violate(self.P, "C06.after-arrival", "fill-before-arrival", order=vid, update=j, arrival=arr[1])
            pools.setdefault((self._pool(o), o.selection_id), []).append((o, fill, el, rem0))
            # lone-order accounting
            lf = self.life.setdefault(vid, {"elig": 0.0, "events": 0, "fill": 0.0, "lone": True, "rem0": rem0, "qa": self.t.queue_ahead.get(vid), "rem_after": rem0, "lapsed": o.simulated.size_lapsed - 0.0})
            if abs(lf["rem_after"] - rem0) > EPS:
                lf["lone"] = False  # disturbed by a cancel / void between two updates: exact formula not applicable
            lapsed_now = o.simulated.size_lapsed > lf["lapsed"] + EPS and not frags
            if not lapsed_now:
                lf["elig"] += sum(el.values()) / 2.0
                lf["events"] += len(el)
            lf["lapsed"] = o.simulated.size_lapsed
            lf["fill"] = round(lf["fill"] + fill, 2)
            lf["rem_after"] = o.size_remaining
            lf["last"] = (o, j)
        for (pool, sel), lst in pools.items():
            if len(lst) > 1 or (pool, sel) in crowd:
                for o, fill, el, rem0 in lst:
                    self.life[o._vid]["lone"] = False
                if sum(1 for _, _, el, _ in lst if el) >= 2:
                    self.res.nontrivial = True
                    self.res.probes["c06.pool_with_2plus_orders_saw_volume"] += 1
            # aggregate bound over every subset (<= 4 orders -> 15 subsets; larger pools: prefixes)
            n = len(lst)
            subsets = range(1, 1 << n) if n <= 4 else [(1 << k) - 1 for k in range(1, n + 1)]
            for mask in subsets:
                sub = [lst[i] for i in range(n) if mask >> i & 1]
                union = {}
                for o, fill, el, rem0 in sub:
                    union.update(el)
                cap = sum(union.values()) / 2.0
                tot = sum(fill for _, fill, _, _ in sub)
                tol = 0.005 * max(1, sum(len(el) for _, _, el, _ in sub)) + 1e-6
                if tot > cap + tol:
                    self.violate(self.P, "C06.aggregate", "subset-filled-more-than-traded" if len(sub) > 1 else "order-filled-more-than-traded", orders=[o._vid for o, _, _, _ in sub], filled=tot, eligible_half=cap, update=j, pool=pool, isolation=self.isolation)
                    break
            # price priority within one side
            for side in ("BACK", "LAY"):
                ss = [x for x in lst if x[0].side == side]
                for a in ss:
                    for b in ss:
                        oa, ob = a[0], b[0]
                        better = oa.order_type.price < ob.order_type.price if side == "BACK" else oa.order_type.price > ob.order_type.price
                        if better and b[1] > 0:
                            self.res.probes["c06.priority_pairs_with_worse_filled"] += 1
                        if better and b[1] > 0.011 * max(1, len(b[2])) and oa.size_remaining > EPS:
                            # a better-priced order is still unfilled although a worse one was served
                            self.violate(self.P, "C06.priority", "worse-priced-order-served-first", better=oa._vid, worse=ob._vid, better_price=oa.order_type.price, worse_price=ob.order_type.price, worse_fill=b[1], better_remaining=oa.size_remaining, update=j)
        self.pre = {}

    def on_end(self):
        for vid, lf in self.life.items():
            if not lf["lone"] or lf["qa"] is None:
                continue
            o = lf["last"][0]
            want = min(max(lf["elig"] - lf["qa"], 0.0), lf["rem0"])
            tol = 0.005 * max(1, lf["events"]) + 1e-6
            if lf["qa"] > 0:
                self.res.nontrivial = True
                self.res.probes["c06.lone_with_queue_ahead"] += 1
                if lf["elig"] > lf["qa"]:
                    self.res.probes["c06.queue_fully_traded"] += 1
            self.res.probes["c06.lone_orders"] += 1
            if abs(lf["fill"] - want) > tol:
                self.violate(self.P, "C06.lone", "lone-order-fill-differs", order=vid, filled=lf["fill"], expected=want, eligible_half=lf["elig"], queue_ahead=lf["qa"], remaining_at_arrival=lf["rem0"], events=lf["events"], side=o.side, price=o.order_type.price)
