"""C11 (order-stream reconciliation / adoption after restart) and C12 (exchange call faults) oracles for World B."""
from collections import Counter

from ..backtest import Monitor

EPS = 1e-9
TRANSIENT = ("CANCELLING", "UPDATING", "REPLACING")


def hash_of(ref):
    return (ref or "")[:13]


def local_orders(fw):
    for market in fw.markets:
        for o in market.blotter:
            yield market, o


class ReconcileMonitor(Monitor):
    """C11"""

    P = "C11"

    def __init__(self, run):
        super().__init__(run)
        self.restarts = 0
        self.between = False
        self.pre_crash = None
        self.applied_open = 0
        self.shown = set()  # bet ids that the current incarnation has been shown by the order stream
        self.seen_book_after_adoption = {}
        self.created_by_ocm = {}

    def on_api_applied(self, n, method, request, response):
        self.applied_open += 1

    def on_exec_after(self, pkg):
        self.applied_open = max(0, self.applied_open - 1)

    def on_step_end(self):
        pend, self.unknown_only = getattr(self, "unknown_only", None), None
        if pend is not None:
            n_markets, mids = pend
            now = set(self.run.fw.markets.markets)
            if len(now) != n_markets:
                self.violate(self.P, "C11.unknown", "update-for-unknown-strategy-created-a-market", markets=sorted(now - mids))

    def on_main_event(self, ev):
        self.unknown_only = None
        if ev.EVENT_TYPE.name == "CURRENT_ORDERS" and getattr(getattr(ev, "exchange", None), "name", "") != "BETDAQ":
            hashes = set(a.name_hash for a in self.run.agents)
            refs = [getattr(o, "customer_order_ref", None) for co in (ev.event or []) for o in getattr(co, "orders", [])]
            if refs and all(r and r.split("-", 1)[0] not in hashes for r in refs):
                # a snapshot that only carries orders of strategies this instance does not run: no effect whatever
                self.unknown_only = (len(self.run.fw.markets.markets), set(self.run.fw.markets.markets))
                self.res.probes["c11.snapshot_of_unknown_strategies_only"] += 1
        if ev.EVENT_TYPE.name == "CURRENT_ORDERS":
            if self.applied_open > 0:
                # a snapshot is processed between the exchange applying a request and its response
                self.res.nontrivial = True
                self.res.probes["c11.snapshot_between_request_and_response"] += 1
            for co in ev.event or []:
                for o in co.orders:
                    self.shown.add(o.bet_id)
                    mid = getattr(o, "market_id", None)
                    if mid is not None and self.run.fw.markets.markets.get(mid) is None:
                        self.created_by_ocm[mid] = True

    def on_strategy_call(self, strategy, market, kind):
        # the market a strategy is handed is the one orders are adopted into (the registered object), whichever of
        # the order stream and the market stream created it first
        reg = self.run.fw.markets.markets.get(market.market_id)
        if reg is not market:
            self.violate(self.P, "C11.adopt" if self.restarts else "C11.agree", "strategy-handed-a-market-that-is-not-the-registered-one", strategy=strategy.name, market=market.market_id, callback=kind, registered_has_book=bool(reg is not None and reg.market_book is not None), orders_in_registered=len(reg.blotter) if reg is not None else None, orders_in_handed=len(market.blotter))
        elif self.restarts and market.market_book is not None and len(market.blotter) and not self.seen_book_after_adoption.get(market.market_id):
            self.seen_book_after_adoption[market.market_id] = True
            self.res.probes["c11.market_created_by_order_stream_then_book" if self.created_by_ocm.get(market.market_id) else "c11.market_created_by_book_then_adoption"] += 1

    def on_restart(self, fw):
        self.restarts += 1
        self.shown = set()
        self.applied_open = 0
        if any(not b["complete"] for b in self.run.exchange.bets.values()):
            self.res.nontrivial = True
            self.res.probes["c11.restart_with_live_bets"] += 1

    def on_quiescent(self, kind):
        if kind == "final":
            self.check(final=True)

    def check(self, final):
        run = self.run
        fw = run.fw
        ex = run.exchange
        hashes = {a.name_hash: a for a in run.agents}
        pr = self.res.probes
        by_bet = {}
        dup = Counter()
        for market, o in local_orders(fw):
            if o.bet_id is not None:
                dup[o.bet_id] += 1
                by_bet[o.bet_id] = (market, o)
        for bid, n in dup.items():
            if n > 1:
                self.violate(self.P, "C11.adopt" if self.restarts else "C11.agree", "bet-present-twice-locally", bet_id=bid, copies=n, restarts=self.restarts)
        with_complete = run.scenario.get("image_with_complete", True)
        for bid in ex.order:
            b = ex.bets[bid]
            h = hash_of(b["ref"])
            strat = hashes.get(h)
            found = by_bet.get(bid)
            if strat is None:
                # unknown strategy: nothing may have been created for it
                if found is not None:
                    self.violate(self.P, "C11.unknown", "order-created-for-unknown-strategy", bet_id=bid)
                pr["c11.unknown_strategy_bet"] += 1
                continue
            if found is None:
                if bid not in self.shown and self.restarts and b["complete"] and not with_complete:
                    pr["c11.completed_bet_not_in_image"] += 1
                    continue  # an image without completed bets cannot convey it
                replaced_pair = any(ex.bets[x]["ref"] == b["ref"] and x != bid for x in ex.order)
                site = "bet-not-known-locally"
                if self.restarts and replaced_pair:
                    site = "replaced-bet-pair-under-one-reference-after-restart"
                elif self.restarts:
                    site = "bet-not-adopted-after-restart"
                self.violate(self.P, "C11.adopt" if self.restarts else "C11.agree", site, bet_id=bid, status="EC" if b["complete"] else "E", shown=bid in self.shown, restarts=self.restarts)
                continue
            market, o = found
            if market.market_id != b["market_id"]:
                self.violate(self.P, "C11.adopt", "order-in-wrong-market", bet_id=bid, local=market.market_id, exchange=b["market_id"])
            if o.trade.strategy is not strat:
                self.violate(self.P, "C11.attribution", "order-attributed-to-other-strategy", bet_id=bid, local=o.trade.strategy.name, expected=strat.name)
            if (o.selection_id, o.side) != (b["selection_id"], b["side"]):
                self.violate(self.P, "C11.attribution", "update-applied-to-other-order", bet_id=bid, local=(o.selection_id, o.side), exchange=(b["selection_id"], b["side"]))
            got = (round(o.size_matched, 2), round(o.size_remaining, 2), round(o.size_cancelled, 2), round(o.size_lapsed, 2), round(o.size_voided, 2), round(o.average_price_matched or 0.0, 2), bool(o.complete))
            want = (b["matched"], b["remaining"], b["cancelled"], b["lapsed"], b["voided"], b["avp"] or 0.0, b["complete"])
            if b["order_type"] != "LIMIT":
                got = got[:1] + got[5:]
                want = want[:1] + want[5:]
            if any(abs(x - y) > 1e-6 if not isinstance(x, bool) else x != y for x, y in zip(got, want)):
                site = "sizes-or-completeness-differ"
                if o.status is not None and o.status.name in TRANSIENT + ("PENDING",):
                    site = "order-left-%s-after-drain" % o.status.name.lower()
                lg = [x.name for x in o.status_log]
                if o.complete and not b["complete"] and lg[-2:] == ["CANCELLING", "EXECUTION_COMPLETE"] and b["cancelled"] > 0 and abs(b.get("last_cancel", b["cancelled"]) - b["remaining"]) < 1e-9:
                    site = "partial-cancel-response-after-stream-update-completes-live-order"
                self.violate(self.P, "C11.agree", site, bet_id=bid, local=list(got), exchange=list(want), status=o.status.name if o.status else None, status_log=[s.name for s in o.status_log], restarts=self.restarts)
        # live list / trades
        for market, o in local_orders(fw):
            live = o in market.blotter._live_orders
            if o.complete and live and final:
                site = "complete-order-still-in-live-list"
                if o.bet_id is None and o.status.name == "EXECUTION_COMPLETE":
                    site = "failed-placement-never-leaves-live-list"
                self.violate(self.P, "C11.live-list", site, order=o._vid, status=o.status.name, status_log=[x.name for x in o.status_log])
            if not o.complete and not live:
                self.violate(self.P, "C11.live-list", "incomplete-order-not-in-live-list", order=o._vid, status=o.status.name if o.status else None)
        seen_t = set()
        for market, o in local_orders(fw):
            t = o.trade
            if id(t) in seen_t:
                continue
            seen_t.add(id(t))
            allc = all(x.complete for x in t.orders if x.id in market.blotter)
            if (t.status.name == "COMPLETE") != allc and final:
                self.violate(self.P, "C11.live-list", "trade-%s-but-orders-%s" % (t.status.name.lower(), "complete" if allc else "live"), orders=[(x._vid, x.status.name if x.status else None) for x in t.orders])
        # adoption accounting: live trades per runner equal the number of adopted/own trades with an incomplete order
        for a in run.agents:
            for lookup, ctx in a._invested.items():
                market = fw.markets.markets.get(lookup[0])
                if market is None:
                    continue
                exp = set()
                for o in market.blotter._strategy_selection_orders.get((a, lookup[1], lookup[2]), ()):
                    if not o.complete:
                        exp.add(o.trade.id)
                if set(ctx.live_trades) != exp and final:
                    self.violate(self.P, "C11.adopt" if self.restarts else "C11.live-list", "runner-context-live-trades-differ", strategy=a.name, lookup=list(lookup), live_trades=len(ctx.live_trades), expected=len(exp), restarts=self.restarts)
        # every adopted/own live bet counts towards exposure
        if final and self.restarts:
            for a in run.agents:
                for market in fw.markets:
                    sels = set((o.selection_id, o.handicap) for o in market.blotter._strategy_orders.get(a, ()))
                    for sel, hc in sels:
                        exp_lose = 0.0
                        exp_win = 0.0
                        for bid in ex.order:
                            b = ex.bets[bid]
                            if hash_of(b["ref"]) != a.name_hash or b["market_id"] != market.market_id or b["selection_id"] != sel or (b.get("handicap") or 0) != hc or b["order_type"] != "LIMIT":
                                continue
                            if bid not in by_bet:
                                continue
                            if b["side"] == "BACK":
                                exp_lose += b["matched"] + (0 if b["complete"] else b["remaining"])
                            else:
                                exp_win += (b["avp"] - 1) * b["matched"] + (0 if b["complete"] else (b["price"] - 1) * b["remaining"])
                        e = market.blotter.get_exposures(a, (market.market_id, sel, hc))
                        got_lose = -(e["matched_profit_if_lose"] if "matched_profit_if_lose" in e else 0)
                        # only a coarse comparison: unmatched worst case
                        if abs(-e["worst_potential_unmatched_profit_if_lose"] - sum(ex.bets[x]["remaining"] for x in ex.order if x in by_bet and hash_of(ex.bets[x]["ref"]) == a.name_hash and ex.bets[x]["market_id"] == market.market_id and ex.bets[x]["selection_id"] == sel and (ex.bets[x].get("handicap") or 0) == hc and ex.bets[x]["side"] == "BACK" and not ex.bets[x]["complete"] and ex.bets[x]["order_type"] == "LIMIT")) > 0.011:
                            self.violate(self.P, "C11.adopt", "exposure-of-restarted-instance-differs", strategy=a.name, selection=sel, reported=e)
        pr["c11.final_checks"] += 1


class FaultMonitor(Monitor):
    """C12 (live part)"""

    P = "C12"

    def __init__(self, run):
        super().__init__(run)
        self.calls = []  # (n, method, request, plan)
        self.applied = {}  # n -> response
        self.pkg_calls = Counter()  # customerRef -> attempts
        self.order_calls = Counter()  # customerOrderRef -> placement instructions sent for it (whatever package carried them)
        self.answered = {}  # n -> True when flumine received a well-formed answer
        self.packages = []
        self.count0 = None
        self.never_answered = set()  # vids of orders whose placement was never answered definitively

    def on_begin(self):
        self.count0 = 0

    def on_package(self, pkg):
        self.packages.append(pkg)

    def on_api_call(self, n, method, request, plan):
        self.calls.append((n, method, request, plan))
        ref = request["params"].get("customerRef")
        self.pkg_calls[ref] += 1
        if method == "placeOrders":
            for ins in request["params"].get("instructions", []):
                self.order_calls[ins.get("customerOrderRef")] += 1
        if plan.get("transport") or plan.get("reports") or plan.get("shuffle") or plan.get("omit"):
            self.res.nontrivial = True
        kind = "transport:%s" % plan["transport"] if plan.get("transport") else None
        if kind:
            self.res.probes["c12.fault.%s.%s.attempt%d" % (method, plan["transport"], self.pkg_calls[ref])] += 1

    def on_api_applied(self, n, method, request, response):
        self.applied[n] = response

    def on_quiescent(self, kind):
        if kind == "before-final-image":
            self.check_progress("after-drain")
        elif kind == "final":
            self.check_progress("final")
            self.check_counts_and_reports()

    def _never_answered(self):
        """Orders whose placement may yet have been accepted: every attempt of their package ended without a
        definitive per-instruction answer (transport fault after the request left, or TIMEOUT report)."""
        out = set()
        for n, method, request, plan in self.calls:
            if method != "placeOrders":
                continue
            resp = self.applied.get(n)
            for i, ins in enumerate(request["params"]["instructions"]):
                ref = ins.get("customerOrderRef")
                if plan.get("transport") == "conn_before":
                    continue  # the request never left: this attempt cannot have placed anything
                if plan.get("transport") in ("conn_after", "http503", "badjson", "aping") or resp is None:
                    out.add(ref)
                elif i >= len(resp["result"]["instructionReports"]):
                    out.add(ref)  # DUPLICATE_TRANSACTION answer to a re-submission: no per-instruction verdict
                elif resp["result"]["instructionReports"][i]["status"] == "TIMEOUT":
                    out.add(ref)
                elif request["params"].get("async"):
                    out.add(ref)
        return out

    def check_progress(self, where):
        maybe = self._never_answered()
        for pkg in self.packages:
            for o in pkg._orders:
                st = o.status.name if o.status else None
                if st in TRANSIENT:
                    self.violate(self.P, "C12.progress", "order-left-%s:%s" % (st.lower(), self._cause(pkg)), order=o._vid, where=where, status_log=[s.name for s in o.status_log], package=pkg.package_type.name)
                elif st == "PENDING" and o.customer_order_ref not in maybe:
                    self.violate(self.P, "C12.progress", "order-left-pending-although-answered:%s" % self._cause(pkg), order=o._vid, where=where, package=pkg.package_type.name)
                if o.trade.status.name == "PENDING":
                    self.violate(self.P, "C12.progress", "trade-left-pending:%s" % self._cause(pkg), order=o._vid, where=where)
        budget = 1 + 3
        for ref, n in self.pkg_calls.items():
            if n > budget:
                self.violate(self.P, "C12.attempts", "more-calls-than-retry-budget", attempts=n, budget=budget)
            if n == budget:
                self.res.probes["c12.retries_exhausted"] += 1
        for ref, n in self.order_calls.items():
            if n > budget:
                self.violate(self.P, "C12.attempts", "one-order-sent-for-placement-more-often-than-the-retry-budget", attempts=n, budget=budget, order_ref=ref)

    def _cause(self, pkg):
        ref = pkg.id.hex
        kinds = []
        for n, method, request, plan in self.calls:
            if request["params"].get("customerRef") == ref:
                if plan.get("transport"):
                    kinds.append(plan["transport"])
                elif plan.get("reports"):
                    kinds.append("reports")
                elif plan.get("shuffle") or plan.get("omit"):
                    kinds.append("shuffled-or-missing-reports")
                else:
                    kinds.append("ok")
        return "%s[%s]" % (pkg.package_type.name, ",".join(kinds[-4:]))

    def check_counts_and_reports(self):
        run = self.run
        client = run.clients[0]
        want = 0
        for n, method, request, plan in self.calls:
            resp = self.applied.get(n)
            if resp is None or plan.get("transport"):
                continue  # not answered (from the framework's point of view)
            reps = resp["result"]["instructionReports"]
            if method == "placeOrders":
                want += len(request["params"]["instructions"])
            elif method == "replaceOrders":
                want += len(request["params"]["instructions"])
                want += sum(1 for r in reps if r["cancelInstructionReport"]["status"] == "FAILURE")
            else:
                want += sum(1 for r in reps if r["status"] == "FAILURE")
        got = client.transaction_count_total
        if got != want:
            self.violate(self.P, "C12.counts", "transaction-count-differs", counted=got, expected=want, calls=[(m, p.get("transport"), len(r["params"].get("instructions", []))) for _, m, r, p in self.calls][:12])
        # reports applied to the order they belong to
        by_bet, by_ref = {}, {}
        for market in run.fw.markets:
            for o in market.blotter:
                if o.bet_id is not None:
                    by_bet[str(o.bet_id)] = o
                by_ref[o.customer_order_ref] = o
        for n, method, request, plan in self.calls:
            resp = self.applied.get(n)
            if resp is None or plan.get("transport"):
                continue
            reps = resp["result"]["instructionReports"]
            if method == "placeOrders" and not request["params"].get("async"):
                for r in reps:
                    if r["status"] == "SUCCESS" and r.get("betId"):
                        o = by_ref.get(r["instruction"].get("customerOrderRef"))
                        if o is None or str(o.bet_id) != str(r["betId"]):
                            self.violate(self.P, "C12.report-to-order", "place-report-applied-to-other-order", bet_id=r["betId"], local_bet_id=getattr(o, "bet_id", None))
            elif method == "cancelOrders":
                for r in reps:
                    o = by_bet.get(str(r["instruction"]["betId"]))
                    if o is None:
                        continue
                    mine = [x for x in o.responses.cancel_responses if str(x.instruction.bet_id) == str(r["instruction"]["betId"]) and x.status == r["status"]]
                    if not mine:
                        self.violate(self.P, "C12.report-to-order", "cancel-report-not-applied-to-its-order", bet_id=r["instruction"]["betId"], status=r["status"])
                    for x in o.responses.cancel_responses:
                        if str(x.instruction.bet_id) != str(o.bet_id):
                            self.violate(self.P, "C12.report-to-order", "cancel-report-applied-to-other-order", order_bet=o.bet_id, report_bet=x.instruction.bet_id)
            elif method == "updateOrders":
                for r in reps:
                    o = by_bet.get(str(r["instruction"]["betId"]))
                    if o is None:
                        continue
                    for x in o.responses.update_responses:
                        if str(x.instruction.bet_id) != str(o.bet_id):
                            self.violate(self.P, "C12.report-to-order", "update-report-applied-to-other-order", order_bet=o.bet_id, report_bet=x.instruction.bet_id)
            elif method == "replaceOrders":
                for r in reps:
                    cr, prp = r["cancelInstructionReport"], r["placeInstructionReport"]
                    if cr["status"] == "SUCCESS" and prp.get("status") == "SUCCESS":
                        old = by_bet.get(str(cr["instruction"]["betId"]))
                        new = by_bet.get(str(prp["betId"]))
                        if old is None:
                            continue
                        if new is None:
                            self.violate(self.P, "C12.report-to-order", "replacement-order-missing", old_bet=cr["instruction"]["betId"], new_bet=prp["betId"])
                        elif new.trade is not old.trade or (new.selection_id, new.side) != (old.selection_id, old.side) or abs(new.order_type.price - prp["instruction"]["limitOrder"]["price"]) > 1e-9 or abs(new.order_type.size - cr["sizeCancelled"]) > 1e-9:
                            self.violate(self.P, "C12.report-to-order", "replacement-created-for-other-order", old_bet=cr["instruction"]["betId"], new_bet=prp["betId"], new_sel=new.selection_id, old_sel=old.selection_id, new_size=new.order_type.size, cancelled=cr["sizeCancelled"])
                        if old.status is not None and old.status.name != "EXECUTION_COMPLETE":
                            self.violate(self.P, "C12.report-to-order", "replaced-order-not-completed", old_bet=cr["instruction"]["betId"], status=old.status.name)
