"""Always-on recorder: event log (digest), abstract states, per-order ledger."""
import zlib
from collections import Counter

from ..backtest import Monitor
from .. import core


def order_type_name(order):
    return order.order_type.ORDER_TYPE.name


def is_limit(order):
    return order.order_type.ORDER_TYPE.name == "LIMIT"


def was_sent(order):
    return bool(order.status_log) and order.status_log[0].name == "PENDING"


def ledger_row(order):
    ot = order.order_type
    return (
        order._vid,
        order.trade.strategy.name,
        order.market_id,
        order.selection_id,
        order.side,
        ot.ORDER_TYPE.name,
        getattr(ot, "price", None),
        getattr(ot, "size", None),
        getattr(ot, "liability", None),
        order.status.name if order.status else None,
        tuple(s.name for s in order.status_log),
        tuple((m[0], m[1], m[2]) for m in order.simulated.matched),
        order.simulated.size_matched,
        order.simulated.average_price_matched,
        round(order.simulated.size_cancelled, 6),
        round(order.simulated.size_lapsed, 6),
        round(order.simulated.size_voided, 6),
        order.size_remaining,
    )


class LedgerMonitor(Monitor):
    def __init__(self, run):
        super().__init__(run)
        self.events = []
        self.nfrag = {}
        self.prev_md = {}

    def on_status(self, order, prev, new):
        mid = order.market_id
        self.events.append(("st", order._vid, prev.name if prev else None, new.name, self.run.cur_pt.get(mid)))

    def on_request_after(self, kind, txn, order, a, k, res, exc):
        self.events.append(("rq", kind, order._vid, res, type(exc).__name__ if exc else None))

    def on_update_start(self, mid, j, mb):
        # environment events ("faults") that actually fired, and whether a request was in flight
        if j is None:
            return
        u = self.run.state(mid, j)
        key = (u["st"], u["ip"], u["ver"], u["bd"], u["bspr"], tuple(r["st"] for r in u["r"].values()))
        prev = self.prev_md.get(mid)
        self.prev_md[mid] = key
        if prev is None or prev == key:
            return
        inflight = any(p.market_id == mid for p in self.run.fw.handler_queue)
        f = self.res.faults
        kinds = []
        if prev[0] != key[0]:
            kinds.append("market_status.%s" % key[0])
        if prev[2] != key[2]:
            kinds.append("version_change")
        if prev[1] != key[1]:
            kinds.append("turn_inplay")
        if prev[3] != key[3]:
            kinds.append("bet_delay_change")
        if prev[4] != key[4]:
            kinds.append("bsp_reconciled")
        if prev[5] != key[5] and "REMOVED" in key[5] and prev[5].count("REMOVED") != key[5].count("REMOVED"):
            kinds.append("runner_removed")
        for k in kinds:
            f[k] += 1
            if inflight:
                f[k + ".while_request_in_flight"] += 1

    def on_update_end(self, mid, j, mb):
        market = self.run.fw.markets.markets.get(mid)
        if market is None:
            return
        c = Counter()
        for o in market.blotter:
            n = len(o.simulated.matched)
            if self.nfrag.get(o._vid, 0) != n:
                for m in o.simulated.matched[self.nfrag.get(o._vid, 0):]:
                    self.events.append(("fill", o._vid, m[1], m[2], m[0]))
                self.nfrag[o._vid] = n
            c[(o.status.name if o.status else None, o.size_matched > 0)] += 1
        pend = Counter(p.package_type.name for p in self.run.fw.handler_queue if p.market_id == mid)
        self.res.states.add(zlib.crc32(repr((mb.status, mb.inplay, sorted(c.items(), key=repr), sorted(pend.items()))).encode()))

    def on_end(self):
        rows = []
        for market in self.run.fw.markets:
            for o in market.blotter:
                rows.append(ledger_row(o) + (o.profit,))
        self.rows = rows
        self.res.digest = core.digest((self.events, rows))


def strategy_ledger(mon, name):
    """Normalised ledger of one strategy: per order (in its own creation order) the economic facts,
    status changes with simulated times, fragments and profit; ids removed."""
    # orders are numbered per market in creation order and listed market by market: the order in which the markets of a
    # run are processed (it follows the creation order of the streams) is not a result
    rows = sorted((r for r in mon.rows if r[1] == name), key=lambda r: (str(r[2]), r[0]))
    idx = {}
    per_market = {}
    for r in rows:
        k = per_market.get(r[2], 0)
        idx[r[0]] = k
        per_market[r[2]] = k + 1
    st = {}
    for e in mon.events:
        if e[0] == "st" and e[1] in idx:
            st.setdefault(e[1], []).append((e[3], e[4]))
    out = []
    for r in rows:
        out.append((idx[r[0]],) + tuple(r[2:]) + (tuple(st.get(r[0], ())),))
    return out
