"""C08 - settlement: independent calculator, mirror symmetry, cleared-market summary."""
from ..backtest import Monitor


def settle_fragment(side, price, size, status, mtype, divisor, n_dead, line_result, is_line):
    """Profit of ONE fill for a BACK bet; LAY is the negative."""
    if is_line:
        if line_result is None:
            return 0.0
        # LINE markets: even money; sell (BACK) wins if outcome < line, buy (LAY) wins if outcome > line,
        # stake returned when the outcome equals the line
        if price > line_result:
            p = size
        elif price < line_result:
            p = -size
        else:
            p = 0.0
    elif mtype == "EACH_WAY":
        win = size * (price - 1)
        place = size * (price - 1) / divisor
        if status == "WINNER":
            p = win + place
        elif status == "PLACED":
            p = place - size
        elif status == "LOSER":
            p = -2 * size
        else:
            p = 0.0
    else:
        if status == "WINNER":
            n = n_dead or 1
            p = size * (price / n - 1) if n > 1 else size * (price - 1)
        elif status == "LOSER":
            p = -size
        else:
            p = 0.0
    return p if side == "BACK" else -p


class SettlementMonitor(Monitor):
    P = "C08"

    def __init__(self, run):
        super().__init__(run)
        self.closing = None
        self.cleared_events = []
        self.clients_spec = run.scenario.get("clients") or [{}]

    def on_results(self, market, mb):
        mid = market.market_id
        mk = self.run.markets_by_id[mid]
        st = self.run.state(mid, self.run.cur_index[mid]) if self.run.cur_index.get(mid) is not None else None
        if st is None:
            return
        winners = [s for s, rs in st["r"].items() if rs["st"] == "WINNER"]
        n_dead = len(winners) if (mk["winners"] == 1 and len(winners) > 1) else None
        mtype = mk["market_type"]
        div = mk.get("ew_divisor") or 1
        line_result = mk.get("line_result")
        pr = self.res.probes
        for o in market.blotter:
            status = st["r"][self.run.rkey(o)]["st"]
            is_line = getattr(o.order_type, "price_ladder_definition", None) == "LINE_RANGE"
            frags = o.simulated.matched
            if o.order_type.ORDER_TYPE.name == "MARKET_ON_CLOSE" and o.side == "LAY" and frags:
                # a non-runner declared after SP reconciliation re-sizes the SP lay stake (C09.sp-lay):
                # the order is then settled on its re-scaled matched size, the fragment list keeps the original
                frags = [[frags[0][0], o.simulated.average_price_matched, o.simulated.size_matched]]
            sm = sum(f[2] for f in frags)
            calc = sum(settle_fragment(o.side, f[1], f[2], status, mtype, div, n_dead, line_result, is_line) for f in frags)
            got = o.profit
            rule = "line" if is_line else "each-way" if mtype == "EACH_WAY" else "dead-heat" if n_dead else "plain"
            if sm > 0:
                pr["c08.settled.%s.%s.%s" % (rule, o.side, status)] += 1
                if rule != "plain":
                    self.res.nontrivial = True
            tol = 0.005 * sm * (2 if mtype == "EACH_WAY" else 1) + 0.0101
            if abs(got - calc) > tol:
                lines = sorted(set(f[1] for f in frags if f[2] > 0))
                site = rule
                if is_line and len(lines) > 1:
                    site = "line-fills-at-several-lines"
                elif is_line and line_result is not None and any(f[1] == line_result for f in frags):
                    site = "line-result-equals-line"
                self.violate(self.P, "C08.order", site, order=o._vid, side=o.side, status=status, market_type=mtype, fragments=[list(f) for f in frags], profit=got, expected=round(calc, 4), dead_heat=n_dead, divisor=div, line_result=line_result)
            # mirror: same fills, other side
            side = o.side
            try:
                o.side = "LAY" if side == "BACK" else "BACK"
                mirror = o.profit
            finally:
                o.side = side
            if sm > 0 and abs(got + mirror) > 1e-9:
                site = "line-result-equals-line" if (is_line and line_result is not None and o.average_price_matched == line_result) else rule
                self.violate(self.P, "C08.mirror", site, order=o._vid, side=side, profit=got, mirror_profit=mirror, status=status, fragments=[list(f) for f in frags], line_result=line_result)
            if sm == 0 and got != 0:
                self.violate(self.P, "C08.order", "unmatched-order-has-profit", order=o._vid, profit=got)
            # settlement terms copied (shared with C20.results)
        self.closing = market

    def on_close_before(self, fw, event):
        self.cleared_events = []
        self.closing = None

    def on_log(self, event):
        if event.EVENT_TYPE.name == "CLEARED_MARKETS":
            self.cleared_events.append(event)

    def on_close_after(self, fw, event):
        market = self.closing
        if market is None:
            return
        clients = self.run.clients
        payloads = [e.event.orders[0] for e in self.cleared_events if e.event.orders]
        if len(clients) >= 2:
            self.res.nontrivial = True
        if len(payloads) != len(clients):
            self.violate(self.P, "C08.cleared", "one-summary-per-client", payloads=len(payloads), clients=len(clients))
            return
        for i, (client, pl) in enumerate(zip(clients, payloads)):
            orders = [o for o in market.blotter if o.client is client and o.size_matched > 0]
            profit = round(sum(o.profit for o in orders), 2)
            rate = self.clients_spec[i].get("commission", 0.05)
            commission = round(max(profit * rate, 0), 2)
            if profit < 0 and rate > 0:
                self.res.probes["c08.commission_on_loss_attempted"] += 1
            if abs(pl.profit - profit) > 1e-9 or pl.bet_count != len(orders) or abs(pl.commission - commission) > 1e-9 or pl.market_id != market.market_id:
                self.violate(self.P, "C08.cleared", "summary-differs", client=i, payload={"profit": pl.profit, "betCount": pl.bet_count, "commission": pl.commission}, expected={"profit": profit, "betCount": len(orders), "commission": commission})
            if pl.commission < 0 or (profit <= 0 and pl.commission != 0):
                self.violate(self.P, "C08.cleared", "commission-on-loss", client=i, profit=profit, commission=pl.commission)
        self.closing = None
