"""C04 - simulated order sizes are conserved (bucket accounting oracle)."""
from ..backtest import Monitor
from .ledger import is_limit, was_sent

EPS = 1e-6


def buckets(o):
    s = o.simulated
    return (s.size_matched, o.size_remaining, s.size_cancelled, s.size_lapsed, s.size_voided)


class SizesMonitor(Monitor):
    P = "C04"

    def __init__(self, run):
        super().__init__(run)
        self.last = {}  # vid -> buckets at the previous audit
        self.moved = {}  # vid -> set of bucket names that received size
        self.sp_resized = set()
        self.removed_seen = set()  # vids whose runner has been removed
        self.pre = {}

    # -- helpers
    def _runner_removed(self, o):
        mid = o.market_id
        j = self.run.cur_index.get(mid)
        if j is None:
            j = self.run.last_delivered.get(mid)
        if j is None:
            return False
        # the removal may be in the update being processed or any earlier one
        st = self.run.state(mid, j)["r"].get(str(o.selection_id))
        return bool(st) and st["st"] == "REMOVED"

    def _sp_lay(self, o):
        return o.side == "LAY" and o.order_type.persistence_type == "MARKET_ON_CLOSE"

    def audit(self, market, where, strategy_call=False):
        for o in market.blotter:
            if not is_limit(o) or not was_sent(o):
                continue
            vid = o._vid
            m, r, c, l, v = b = buckets(o)
            size = o.order_type.size
            removed = vid in self.removed_seen or self._runner_removed(o)
            if removed:
                self.removed_seen.add(vid)
            sp_lay = self._sp_lay(o) and o.simulated._bsp_reconciled
            site = "%s/%s" % (where, o.status.name if o.status else None)
            if m < -EPS or r < -EPS:
                self.violate(self.P, "C04.nonneg", self._site(o, removed), where=where, order=vid, matched=m, remaining=r, cancelled=c, lapsed=l, voided=v, size=size)
            if (l < -EPS or v < -EPS or (c < -EPS and not sp_lay)):
                self.violate(self.P, "C04.nonneg", self._site(o, removed), where=where, order=vid, matched=m, remaining=r, cancelled=c, lapsed=l, voided=v, size=size)
            if abs(size - (m + r + c + l + v)) > 0.0051:
                self.violate(self.P, "C04.sum", self._site(o, removed), where=where, order=vid, buckets=b, size=size)
            prev = self.last.get(vid)
            if prev is not None and not removed:
                pm, pr, pc, pl, pv = prev
                if m < pm - EPS:
                    self.violate(self.P, "C04.monotone", "matched-decreased", where=where, order=vid, before=prev, after=b)
                if l < pl - EPS or v < pv - EPS or (c < pc - EPS and not self._sp_lay(o)):
                    self.violate(self.P, "C04.monotone", "bucket-decreased", where=where, order=vid, before=prev, after=b)
            if prev is None or prev != b:
                mv = self.moved.setdefault(vid, set())
                base = prev or (0, 0, 0, 0, 0)
                for name, i in (("matched", 0), ("cancelled", 2), ("lapsed", 3), ("voided", 4)):
                    if b[i] > base[i] + EPS:
                        mv.add(name)
                if len(mv) >= 2:
                    self.res.nontrivial = True
                    if removed and "cancelled" in mv:
                        self.res.probes["c04.partial_cancel_then_removal"] += 1
                self.last[vid] = b
            if strategy_call:
                # the re-sizing of a LAY carried to the starting price may leave a penny of residue; the wider tolerance is for
                # orders that HAVE been carried (reconciled), not for every lay order that merely has that persistence
                carried = False
                if sp_lay and o.simulated._bsp_reconciled:
                    st_ = self.run.held_state(market.market_id)
                    bsp = ((st_ or {}).get("r", {}).get(str(o.selection_id)) or {}).get("bsp")
                    carried = bsp is not None and any(abs(f[1] - bsp) < 1e-9 for f in o.simulated.matched)
                tol = 0.011 if carried else EPS
                if o.complete != (abs(r) <= tol):
                    self.violate(
                        self.P,
                        "C04.complete-iff",
                        self._ci_site(o, removed),
                        where=where,
                        order=vid,
                        complete=o.complete,
                        remaining=r,
                        status=o.status.name,
                        status_log=[s.name for s in o.status_log],
                    )

    def _site(self, o, removed):
        if removed:
            return "after-runner-removal"
        return "status=%s" % (o.status.name if o.status else None)

    def _ci_site(self, o, removed):
        log = [s.name for s in o.status_log]
        if o.status.name == "VIOLATION":
            return "live-order-marked-violation"
        if removed:
            return "after-runner-removal"
        if not o.complete and "EXECUTION_COMPLETE" in log:
            return "reopened-after-complete"
        return "status=%s" % o.status.name

    # -- hooks
    def on_after_matching(self, market):
        self.audit(market, "after_matching")

    def on_strategy_call(self, strategy, market, kind):
        if kind in ("book", "orders", "check"):
            self.audit(market, "strategy:" + kind, strategy_call=True)

    def on_strategy_closed(self, strategy, market, mb):
        self.audit(market, "strategy:closed", strategy_call=False)

    def on_update_end(self, mid, j, mb):
        market = self.run.fw.markets.markets.get(mid)
        if market is not None and mb.status != "CLOSED":
            self.audit(market, "update_end")

    # responses
    def on_exec_before(self, pkg):
        self.pre = {}
        for o in pkg:
            if is_limit(o):
                self.pre[o._vid] = (buckets(o), len(o.responses.cancel_responses), dict(o.update_data), o.status.name)
        self.created_during = []

    def on_order_created(self, order):
        if hasattr(self, "created_during"):
            self.created_during.append(order)

    def on_exec_after(self, pkg):
        kind = pkg.package_type.name
        self.res.probes["c04.exec.%s" % kind] += 1
        created = list(getattr(self, "created_during", ()))
        for o in pkg._orders:
            if not is_limit(o) or o._vid not in self.pre:
                continue
            (pm, pr, pc, pl, pv), ncr, upd, st0 = self.pre[o._vid]
            m, r, c, l, v = buckets(o)
            if kind == "CANCEL" and len(o.responses.cancel_responses) > ncr:
                resp = o.responses.cancel_responses[-1]
                if resp.status == "SUCCESS":
                    x = resp.size_cancelled
                    want = min(upd.get("size_reduction") or pr, pr)
                    if upd.get("size_reduction") and upd["size_reduction"] > pr + EPS:
                        self.res.probes["c04.reduction_larger_than_remainder"] += 1
                    if abs(x - want) > EPS or abs((c - pc) - x) > EPS or abs((pr - r) - x) > 0.0051 or x > pr + EPS:
                        self.violate(self.P, "C04.moves", "cancel", order=o._vid, reported=x, expected=want, before=(pm, pr, pc, pl, pv), after=(m, r, c, l, v))
                else:
                    if (m, r, c, l, v) != (pm, pr, pc, pl, pv):
                        self.violate(self.P, "C04.moves", "cancel-failure-moved-size", order=o._vid, before=(pm, pr, pc, pl, pv), after=(m, r, c, l, v))
            elif kind == "PLACE":
                resp = o.responses.place_response
                if resp is not None and resp.status == "FAILURE":
                    self.res.probes["c04.place_failure.%s" % resp.error_code] += 1
                    if abs(r) > EPS or m > EPS:
                        self.violate(self.P, "C04.moves", "failed-placement:%s" % resp.error_code, order=o._vid, after=(m, r, c, l, v))
                    bucket = {"ERROR_IN_ORDER": 4, "RUNNER_REMOVED": 4, "BET_TAKEN_OR_LAPSED": 3, "BET_LAPSED_PRICE_IMPROVEMENT_TOO_LARGE": 3, "INVALID_MIN_FILL_SIZE": 2}.get(resp.error_code)
                    if bucket is not None and abs(((m, r, c, l, v)[bucket] - (pm, pr, pc, pl, pv)[bucket]) - pr) > EPS:
                        self.violate(self.P, "C04.moves", "failed-placement-bucket:%s" % resp.error_code, order=o._vid, after=(m, r, c, l, v))
            elif kind == "REPLACE":
                x = c - pc
                repl = [n for n in created if n.trade is o.trade and n is not o and getattr(n, "_repl_src", None) is None]
                # replacement orders are created in package order; match by bet lineage
                mine = [n for n in repl if n.side == o.side and n.selection_id == o.selection_id and abs(n.order_type.size - x) <= EPS]
                if x > EPS:
                    self.res.probes["c04.replace_cancelled"] += 1
                    if abs((pr - r) - x) > 0.0051:
                        self.violate(self.P, "C04.moves", "replace-cancel", order=o._vid, before=(pm, pr, pc, pl, pv), after=(m, r, c, l, v))
                    if repl and not mine:
                        self.violate(self.P, "C04.moves", "replace-size", order=o._vid, cancelled=x, replacement_sizes=[n.order_type.size for n in repl])
                    for n in mine[:1]:
                        n._repl_src = o._vid
        self.pre = {}
        if hasattr(self, "created_during"):
            del self.created_during
