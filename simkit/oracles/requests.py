"""C02 - refused requests change nothing; accepted requests are sent exactly once."""
from collections import Counter

from ..backtest import Monitor

LIMITS = {"PLACE": 200, "CANCEL": 60, "UPDATE": 60, "REPLACE": 60}
BETDAQ_LIMITS = {"PLACE": 10, "CANCEL": 10, "UPDATE": 50, "REPLACE": 0}


def ctx_snapshot(strategy, lookup):
    c = strategy._invested.get(lookup)
    if c is None:
        return (False, (), (), None, None)
    return (bool(c.invested), tuple(c.trades), tuple(c.live_trades), c.datetime_last_placed, c.datetime_last_reset)


def snapshot(order, txn):
    market = txn.market
    b = market.blotter
    s = order.trade.strategy
    ot = order.order_type
    client = txn._client
    counts = None
    if client is not None:
        for ctl in client.trading_controls:
            if getattr(ctl, "NAME", None) == "MAX_TRANSACTION_COUNT":
                # totals only: the hourly figures are legitimately restarted by a validation in a new clock hour
                counts = (ctl.transaction_count, ctl.failed_transaction_count)
    return {
        "status": order.status.name if order.status else None,
        "status_log": tuple(x.name for x in order.status_log),
        "update_data": dict(order.update_data),
        "persistence": getattr(ot, "persistence_type", None),
        "price": getattr(ot, "price", None),
        "size": getattr(ot, "size", None),
        "liability": getattr(ot, "liability", None),
        "bet_id": order.bet_id,
        # of a placed order (never of a new one or of one already marked a violation, which may be re-marked)
        "violation_msg": order.violation_msg if order.status is not None and order.status.name != "VIOLATION" else None,
        "order_client": getattr(order.client, "username", None) if order.status is not None and order.status.name != "VIOLATION" else None,
        "complete": order.complete,
        "trade_status": order.trade.status.name,
        "trade_log": tuple(x.name for x in order.trade.status_log),
        "trade_orders": len(order.trade.orders),
        "in_blotter": order.id in b,
        "live": sum(1 for o in b._live_orders if o is order),
        "n_orders": len(b),
        "n_live": len(b._live_orders),
        "views": (
            sum(1 for o in b._strategy_orders.get(s, ()) if o is order),
            sum(1 for o in b._strategy_selection_orders.get((s, order.selection_id, order.handicap), ()) if o is order),
            sum(1 for o in b._client_orders.get(client, ()) if o is order),
            sum(1 for o in b._client_strategy_orders.get((client, s), ()) if o is order),
        ),
        "ctx": ctx_snapshot(s, order.lookup),
        "counts": counts,
        "pending": (len(txn._pending_place), len(txn._pending_cancel), len(txn._pending_update), len(txn._pending_replace), txn._pending_orders),
    }


class RequestMonitor(Monitor):
    P = "C02"

    def __init__(self, run):
        super().__init__(run)
        self.pre = None
        self.control_fired = []
        self.expected = {}  # id(txn) -> [(kind, order, market_version)]
        self.delivered = {}  # id(txn) -> [(kind, order, pkg)]
        self.unassigned = []  # packages captured while no txn.execute was in progress
        self.frames = []  # one list of captured packages per txn.execute in progress (innermost last)
        self.refused = {}  # vid -> set(kinds refused and not accepted since)
        self.txn_refs = {}
        self.scripted_calls = Counter()
        self.executing = []

    # scripted controls report here
    def on_control_error(self, control, order, error):
        self.control_fired.append(control.NAME)

    def on_request_before(self, kind, txn, order, a, k):
        self.control_fired = []
        if kind == "PLACE":
            execute = a[1] if len(a) > 1 else k.get("execute", True)
            force = a[2] if len(a) > 2 else k.get("force", False)
            mv = a[0] if len(a) > 0 else k.get("market_version")
        elif kind == "REPLACE":
            execute = True
            force = a[2] if len(a) > 2 else k.get("force", False)
            mv = a[1] if len(a) > 1 else k.get("market_version")
        elif kind == "CANCEL":
            execute = True
            force = a[1] if len(a) > 1 else k.get("force", False)
            mv = None
        else:
            execute = True
            force = a[-1] if len(a) >= 9 else k.get("force", False)
            mv = None
        self.txn_refs[id(txn)] = txn
        self.pre = (snapshot(order, txn), execute, force, mv, sum(self.scripted_calls.values()))

    def on_scripted_control_called(self):
        self.scripted_calls["n"] += 1

    def on_request_after(self, kind, txn, order, a, k, res, exc):
        if self.pre is None:
            return
        before, execute, force, mv, calls0 = self.pre
        self.pre = None
        after = snapshot(order, txn)
        pr = self.res.probes
        new_order = before["status"] is None or (kind == "PLACE" and not before["in_blotter"])
        if force:
            pr["c02.forced.%s" % kind] += 1
            if sum(self.scripted_calls.values()) != calls0 or self.control_fired:
                self.violate(self.P, "C02.force", "controls-consulted-for-forced-request:%s" % kind, fired=self.control_fired)
        if exc is not None:
            pr["c02.rejected.%s.on.%s" % (kind, before["status"])] += 1
            if after != before:
                diff = {x: (before[x], after[x]) for x in before if before[x] != after[x]}
                self.violate(self.P, "C02.rejected-mutates", "%s-on-%s" % (kind.lower(), before["status"]), order=order._vid, error="%s: %s" % (type(exc).__name__, exc), diff={x: [str(v[0])[:120], str(v[1])[:120]] for x, v in diff.items()})
            return
        if res is False:
            pr["c02.refused.%s.%s" % (kind, ",".join(self.control_fired) or "?")] += 1
            if not self.control_fired:
                self.violate(self.P, "C02.refused-mutates", "refused-without-control-violation:%s" % kind, order=order._vid)
            if before["status"] is not None and kind != "PLACE":
                self.res.nontrivial = True
            allowed = dict(before)
            if kind == "PLACE" and before["status"] != "VIOLATION" and not before["in_blotter"]:
                # the only permitted effect: a refused NEW order is a violation and stays out of the blotter
                allowed["status"] = "VIOLATION"
                allowed["status_log"] = before["status_log"] + ("VIOLATION",)
                allowed["complete"] = True
                if after["status"] != "VIOLATION" or after["in_blotter"] or not order.violation_msg:
                    self.violate(self.P, "C02.refused-mutates", "refused-new-order-not-marked:%s" % ",".join(self.control_fired), order=order._vid, status=after["status"], in_blotter=after["in_blotter"], msg=order.violation_msg)
            elif before["status"] == "VIOLATION":
                # an order that was never sent may be re-marked as a violation
                allowed["status_log"] = after["status_log"] if after["status_log"][: len(before["status_log"])] == before["status_log"] and set(after["status_log"][len(before["status_log"]):]) <= {"VIOLATION"} else before["status_log"]
            if after != allowed:
                diff = {x: (allowed[x], after[x]) for x in allowed if allowed[x] != after[x]}
                self.violate(self.P, "C02.refused-mutates", "%s-refused-by-%s" % (kind.lower(), ",".join(self.control_fired) or "?"), order=order._vid, before_status=before["status"], diff={x: [str(v[0])[:120], str(v[1])[:120]] for x, v in diff.items()})
            self.refused.setdefault(order._vid, set()).add(kind)
            return
        # accepted
        if self.control_fired and not force:
            self.violate(self.P, "C02.refused-mutates", "accepted-although-control-violated:%s" % ",".join(self.control_fired), order=order._vid, kind=kind)
        pr["c02.accepted.%s" % kind] += 1
        self.refused.get(order._vid, set()).discard(kind)
        if kind == "PLACE" and not execute:
            return
        self.expected.setdefault(id(txn), []).append((kind, order, mv))

    def on_txn_execute_before(self, txn):
        # execute() calls nest when a pool thread runs inside submit() (its reply handling opens a transaction of its own
        # for the replacement order): packages belong to the innermost execute() in progress
        self.frames.append([])

    def on_package(self, pkg):
        (self.frames[-1] if self.frames else self.unassigned).append(pkg)
        kind = pkg.package_type.name
        n = len(pkg._orders)
        lim = (BETDAQ_LIMITS if pkg.EXCHANGE is not None and pkg.EXCHANGE.name == "BETDAQ" else LIMITS)[kind]
        if n > lim:
            self.violate(self.P, "C02.delivery", "package-exceeds-per-call-limit:%s" % kind, size=n, limit=lim)
        if n >= lim:
            self.res.probes["c02.full_chunk.%s" % kind] += 1

    def on_txn_execute(self, txn, n):
        pkgs = self.frames.pop() if self.frames else []
        if n != len(pkgs):
            self.violate(self.P, "C02.delivery", "execute-returned-wrong-count", returned=n, captured=len(pkgs))
        self.delivered.setdefault(id(txn), []).extend(pkgs)
        if len(pkgs) >= 2:
            self.res.nontrivial = True
            self.res.probes["c02.transaction_with_2plus_packages"] += 1

    def on_txn_exit(self, txn):
        key = id(txn)
        exp = self.expected.pop(key, [])
        pkgs = self.delivered.pop(key, [])
        self.txn_refs.pop(key, None)
        if self.unassigned:
            # packages produced outside execute()
            self.violate(self.P, "C02.delivery", "package-outside-execute", n=len(self.unassigned))
            self.unassigned = []
        want = Counter((k, o._vid) for k, o, mv in exp)
        got = Counter()
        for p in pkgs:
            for o in p._orders:
                got[(p.package_type.name, o._vid)] += 1
        if want != got:
            missing = want - got
            extra = got - want
            site = "lost" if missing and not extra else "duplicated-or-unrequested" if extra and not missing else "lost-and-extra"
            self.violate(self.P, "C02.delivery", "requests-%s" % site, missing=sorted(missing.items())[:6], extra=sorted(extra.items())[:6], requests=len(exp), packages=len(pkgs))
        # one market version per package, request order kept within (kind, version)
        mv_of = {(k, o._vid): mv for k, o, mv in exp}
        if len(set(mv for _, _, mv in exp)) >= 2:
            self.res.probes["c02.mixed_market_versions"] += 1
        for p in pkgs:
            kind = p.package_type.name
            vs = set(mv_of.get((kind, o._vid)) for o in p._orders)
            if len(vs) > 1:
                self.violate(self.P, "C02.delivery", "package-mixes-market-versions", versions=sorted(str(v) for v in vs))
            elif vs:
                v = next(iter(vs))
                if kind in ("PLACE", "REPLACE") and (p.market_version or {}).get("version") != v and not (v is None and p.market_version is None):
                    self.violate(self.P, "C02.delivery", "package-market-version-differs-from-request:%s" % kind, package=p.market_version, requested=v)
        for kind in LIMITS:
            groups = {}
            for k, o, mv in exp:
                if k == kind:
                    groups.setdefault(mv, []).append(o._vid)
            for mv, req_order in groups.items():
                sent = [o._vid for p in pkgs if p.package_type.name == kind for o in p._orders if mv_of.get((kind, o._vid)) == mv]
                if sorted(sent) == sorted(req_order) and sent != req_order:
                    self.violate(self.P, "C02.delivery", "request-order-not-preserved:%s" % kind, requested=req_order[:10], sent=sent[:10])
        if txn._pending_place or txn._pending_cancel or txn._pending_update or txn._pending_replace or txn._pending_orders:
            self.violate(self.P, "C02.delivery", "requests-left-queued-after-transaction", pending=(len(txn._pending_place), len(txn._pending_cancel), len(txn._pending_update), len(txn._pending_replace), txn._pending_orders))

    def on_end(self):
        for key, exp in self.expected.items():
            if exp:
                self.violate(self.P, "C02.delivery", "transaction-never-ended-with-accepted-requests", n=len(exp))


class RejectionMonitor(RequestMonitor):
    """C03: a request rejected with an error (order not in a state that permits it, operation in flight) has no side
    effects - the same before/after snapshot as C02, reported under C03 and only for requests that raised."""

    P = "C03"

    def on_request_after(self, kind, txn, order, a, k, res, exc):
        if self.pre is None:
            return
        before = self.pre[0]
        self.pre = None
        if exc is None:
            return
        after = snapshot(order, txn)
        self.res.probes["c03.rejected.%s.on.%s" % (kind, before["status"])] += 1
        if after != before:
            diff = {x: (before[x], after[x]) for x in before if before[x] != after[x]}
            self.violate(self.P, "C03.one-in-flight", "rejected-request-has-side-effects:%s-on-%s" % (kind.lower(), before["status"]), order=order._vid, error="%s: %s" % (type(exc).__name__, exc), diff={x: [str(v[0])[:120], str(v[1])[:120]] for x, v in diff.items()})

    # delivery bookkeeping of C02 is not part of C03
    def on_package(self, pkg):
        pass

    def on_txn_execute(self, txn, n):
        pass

    def on_txn_exit(self, txn):
        pass

    def on_end(self):
        pass
