"""C01 - exposure limits: independent brute-force worst-case calculator, decision and consequence."""
from itertools import combinations

from ..backtest import Monitor

BAND = 1e-6
UNACK = ("PENDING", "VIOLATION", "EXPIRED")


def rec_of(o, market_type, ew_div):
    ot = o.order_type
    t = ot.ORDER_TYPE.name
    return {
        "o": o,
        "side": o.side,
        "type": t,
        "line": getattr(ot, "price_ladder_definition", None) == "LINE_RANGE",
        "price": getattr(ot, "price", None),
        "size": getattr(ot, "size", None),
        "liability": getattr(ot, "liability", None),
        "frags": [(m[1], m[2]) for m in o.simulated.matched if m[2] > 0],
        "rem": o.size_remaining if t == "LIMIT" else 0.0,
        "status": o.status.name if o.status else None,
        "complete": o.complete,
        "reconciled": o.simulated._bsp_reconciled,
        "voided": o.simulated.size_voided,
        "ew": ew_div if market_type == "EACH_WAY" else None,
        "sm": o.simulated.size_matched,
        "avp": o.simulated.average_price_matched,
    }


def _bet_pl(side, price, size, outcome, ew):
    """P&L of one matched odds bet for outcome 'win' / 'lose' (each-way: worst of placed/unplaced for 'lose')."""
    if ew:
        win = size * (price - 1) * (1 + 1.0 / ew)
        lose = -2 * size  # unplaced; placed would be size*(price-1)/ew - size >= -2*size
        p = win if outcome == "win" else lose
    else:
        p = size * (price - 1) if outcome == "win" else -size
    return p if side == "BACK" else -p


def order_pl_worst(r, outcome, conservative=False, full=False):
    """Worst-case contribution of one order to the P&L if the selection wins / loses.
    full=True: count the order as if its whole requested size filled at its limit price (new order)."""
    side, t = r["side"], r["type"]
    if t == "LIMIT":
        if full:
            return min(0.0, _bet_pl(side, r["price"], r["size"], outcome, r["ew"]))
        pl = sum(_bet_pl(side, p, s, outcome, r["ew"]) for p, s in r["frags"])
        if conservative and r["frags"]:
            # the implementation nets on the 2dp average price
            pl = _bet_pl(side, r["avp"], r["sm"], outcome, r["ew"])
        if not r["complete"] and r["rem"] and r["price"]:
            pl += min(0.0, _bet_pl(side, r["price"], r["rem"], outcome, r["ew"]))
        return pl
    # starting price orders
    liab = r["liability"]
    if full or conservative:
        if side == "BACK":
            return -liab * (2 if r["ew"] else 1) if outcome == "lose" else 0.0
        return -liab if outcome == "win" else 0.0
    dead = r["complete"] and not r["frags"]
    if dead or r["voided"]:
        return 0.0
    if r["frags"]:
        return sum(_bet_pl(side, p, s, outcome, r["ew"]) for p, s in r["frags"])
    if side == "BACK":
        return -liab * (2 if r["ew"] else 1) if outcome == "lose" else 0.0
    return -liab if outcome == "win" else 0.0


def brute_force_worst(recs, outcome):
    """Literal enumeration over which open orders fill (each fully or not at all) - used to cross-check the
    additive shortcut on small positions."""
    fixed = 0.0
    optional = []
    for r in recs:
        if r["type"] == "LIMIT":
            fixed += sum(_bet_pl(r["side"], p, s, outcome, r["ew"]) for p, s in r["frags"])
            if not r["complete"] and r["rem"] and r["price"]:
                optional.append(_bet_pl(r["side"], r["price"], r["rem"], outcome, r["ew"]))
        else:
            fixed += order_pl_worst(r, outcome)
    worst = None
    n = len(optional)
    for mask in range(1 << n):
        v = fixed + sum(optional[i] for i in range(n) if mask >> i & 1)
        worst = v if worst is None else min(worst, v)
    return worst


def line_worst(recs, new=None):
    """LINE markets: every fill settles at even money against its own line; worst over all results."""
    bets = []  # (side, line, size, optional)
    for r in recs:
        for p, s in r["frags"]:
            bets.append((r["side"], p, s, False))
        if not r["complete"] and r["rem"] and r["price"]:
            bets.append((r["side"], r["price"], r["rem"], True))
    if new is not None:
        bets.append((new["side"], new["price"], new["size"], True))
    if not bets:
        return 0.0
    lines = sorted(set(b[1] for b in bets))
    results = [lines[0] - 1] + lines + [(a + b) / 2.0 for a, b in zip(lines, lines[1:])] + [lines[-1] + 1]
    worst = 0.0
    first = True
    for res in results:
        tot = 0.0
        for side, line, size, opt in bets:
            if line == res:
                pl = 0.0
            elif (side == "BACK" and line > res) or (side == "LAY" and line < res):
                pl = size
            else:
                pl = -size
            if opt:
                pl = min(0.0, pl)
            tot += pl
        if first or tot < worst:
            worst, first = tot, False
    return worst


def new_order_exposure(side, t, price, size, liability, line):
    if t == "LIMIT":
        if line:
            return size
        return size if side == "BACK" else (price - 1) * size
    return liability


class ExposureMonitor(Monitor):
    P = "C01"

    def __init__(self, run):
        super().__init__(run)
        self.last_refusal = None
        self.pending = None
        self.dyadic = bool(run.scenario.get("dyadic"))
        self.discipline = {s["name"]: bool(s.get("discipline")) for s in run.scenario["strategies"]}
        self.forced = set()

    # ---- helpers
    def _market_info(self, mid):
        mk = self.run.markets_by_id[mid]
        return mk["market_type"], mk.get("ew_divisor"), mk

    def _recs(self, market, strategy, sel=None, exclude=None):
        mtype, div, mk = self._market_info(market.market_id)
        out = []
        for o in market.blotter._strategy_orders.get(strategy, ()):
            if sel is not None and o.selection_id != sel:
                continue
            if o is exclude:
                continue
            out.append(rec_of(o, mtype, div))
        return out

    def _tol(self, recs):
        t = 0.005 * sum(r["sm"] for r in recs) + 0.01 * max(1, len(recs))
        for r in recs:
            # a starting-price LAY is given as a liability; its stake is liability / (SP - 1) rounded to 2dp, so the
            # liability of the fill differs from the requested one by up to 0.005 x (SP - 1)
            if r["side"] == "LAY" and (r["type"] in ("LIMIT_ON_CLOSE", "MARKET_ON_CLOSE") or (r["reconciled"] and getattr(r["o"].order_type, "persistence_type", None) == "MARKET_ON_CLOSE")):
                t += sum(0.005 * max(0.0, f[0] - 1.0) for f in r["frags"])
        return t

    def on_control_error(self, control, order, error):
        self.last_refusal = (control.NAME, str(error))

    # ---- boundary-seeking agents: the size that puts the selection's potential exposure just outside / just inside the
    # band around the limit in which either verdict is accepted (own calculator, own journal of fills)
    def boundary_size(self, market, strategy, sel, side, price, mode):
        import math

        mtype, div, mk = self._market_info(market.market_id)
        ls = strategy.max_selection_exposure
        if ls is None or mtype == "EACH_WAY" or mk.get("line") or not price or price <= 1.0:
            return None
        outcome = "lose" if side == "BACK" else "win"
        others = [r for r in self._recs(market, strategy, sel) if r["status"] not in UNACK]
        if any(r["line"] for r in others):
            return None
        tol = self._tol(others)
        unit = 1.0 if side == "BACK" else (price - 1.0)
        if mode == "over":
            cur = -sum(order_pl_worst(r, outcome) for r in others)
            need = ls + tol + BAND + 0.002 - cur
            size = math.ceil(need / unit * 100.0 - 1e-9) / 100.0
            if cur + size * unit <= ls + tol + BAND:
                size = round(size + 0.01, 2)
        else:
            cur = -sum(order_pl_worst(r, outcome, conservative=True) for r in others)
            need = ls - tol - BAND - 0.002 - cur
            size = math.floor(need / unit * 100.0 + 1e-9) / 100.0
            if cur + size * unit >= ls - tol - BAND:
                size = round(size - 0.01, 2)
        size = round(size, 2)
        if size < 0.01 or size > 200.0:
            return None
        self.res.probes["c01.boundary_seeking_order.%s" % mode] += 1
        return size

    # ---- oracle 1: decision
    def on_request_before(self, kind, txn, order, a, k):
        self.pending = None
        self.last_refusal = None
        if kind not in ("PLACE", "REPLACE"):
            return
        force = k.get("force", False) or (len(a) > 2 and a[2] if kind == "PLACE" else (len(a) > 2 and a[2]))
        execute = k.get("execute", True) if kind == "PLACE" else True
        if kind == "PLACE" and len(a) > 1:
            execute = a[1]
        if force:
            self.forced.add(order._vid)
        if force or not execute:
            return
        market = txn.market
        strategy = order.trade.strategy
        mtype, div, mk = self._market_info(market.market_id)
        st = self.run.held_state(market.market_id)
        if st is None:
            return
        ot = order.order_type
        t = ot.ORDER_TYPE.name
        line = getattr(ot, "price_ladder_definition", None) == "LINE_RANGE"
        side = order.side
        sel = order.selection_id
        outcome = "lose" if side == "BACK" else "win"
        ew = div if mtype == "EACH_WAY" else None
        if kind == "PLACE":
            price, size, liab = getattr(ot, "price", None), getattr(ot, "size", None), getattr(ot, "liability", None)
            others = [r for r in self._recs(market, strategy, sel) if r["status"] not in UNACK]
            new = {"side": side, "type": t, "price": price, "size": size, "liability": liab, "line": line, "ew": ew, "frags": [], "rem": size, "complete": False}
            own = new_order_exposure(side, t, price, size, liab, line)
            if ew and side == "BACK":
                own_truth = own * 2
            elif ew and side == "LAY" and t == "LIMIT":
                own_truth = own * (1 + 1.0 / ew)
            else:
                own_truth = own
        else:
            new_price = a[0] if a else k.get("new_price")
            me = rec_of(order, mtype, div)
            others = [r for r in self._recs(market, strategy, sel, exclude=order) if r["status"] not in UNACK]
            # post-state: matched part of the old order stays, its remainder is re-offered at the NEW price
            stay = dict(me)
            stay["rem"], stay["complete"] = 0.0, True
            if t == "LIMIT":
                others = others + [stay]
            rem = me["rem"] if t == "LIMIT" else 0.0
            new = {"side": side, "type": t, "price": new_price, "size": rem, "liability": me["liability"], "line": line, "ew": ew, "frags": [], "rem": rem, "complete": False}
            own = new_order_exposure(side, t, new_price, rem, me["liability"], line)
            own_truth = own * (2 if (ew and side == "BACK") else (1 + 1.0 / ew) if (ew and t == "LIMIT") else 1)
        if t != "LIMIT":
            new["size"] = None
        pre = None
        if kind == "REPLACE":
            # the position as it stands (remainder still offered at the OLD price)
            pre_new = dict(new)
            pre_new["price"] = getattr(ot, "price", None)
            pre = pre_new
        # selection figures
        if line:
            truth_sel = -line_worst(others, new if t == "LIMIT" else None)
            cons_sel = None
        else:
            cur_truth = sum(order_pl_worst(r, outcome) for r in others)
            cur_cons = sum(order_pl_worst(r, outcome, conservative=True) for r in others)
            truth_sel = -cur_truth + own_truth
            cons_sel = -cur_cons + own
            if len(others) <= 8 and not any(r["type"] != "LIMIT" for r in others):
                bf = brute_force_worst(others, outcome)
                if abs(bf - cur_truth) > 1e-6:
                    self.run.note_harness("exposure calculator self-check failed: %r vs %r" % (bf, cur_truth))
        # market figures
        truth_mkt = cons_mkt = None
        if strategy.max_market_exposure is not None and not line:
            truth_mkt, cons_mkt = self._market_worst(market, strategy, st, mk, order if kind == "REPLACE" else None, new, sel, others)
        pre_sel = pre_mkt = pre_own = None
        if pre is not None:
            pre_own = new_order_exposure(side, t, pre["price"], pre["size"] if t == "LIMIT" else None, pre["liability"], line) * (own_truth / own if own else 1)
            if line:
                pre_sel = -line_worst(others, pre if t == "LIMIT" else None)
            else:
                pre_sel = -sum(order_pl_worst(r, outcome) for r in others) + pre_own
            if truth_mkt is not None:
                pre_mkt, _ = self._market_worst(market, strategy, st, mk, order, pre, sel, others)
        two_sided = len(set([r["side"] for r in others if (r["frags"] or (not r["complete"] and r["rem"]))] + [side])) > 1
        all_recs = self._recs(market, strategy)
        tol_mkt = self._tol(all_recs)
        self.pending = dict(tol_mkt=tol_mkt, two_sided=two_sided, market_id=market.market_id, pre_sel=pre_sel, pre_mkt=pre_mkt, pre_own=pre_own, kind=kind, own=own, own_truth=own_truth, truth_sel=truth_sel, cons_sel=cons_sel, truth_mkt=truth_mkt, cons_mkt=cons_mkt, n=len(others), tol=self._tol(others), line=line, ew=bool(ew), side=side, t=t, sel=sel, strategy=strategy, price=new.get("price"), size=new.get("size"), old_price=getattr(ot, "price", None))

    def _market_worst(self, market, strategy, st, mk, exclude, new, new_sel, new_sel_others):
        active = [int(s) for s, rs in st["r"].items() if rs["st"] == "ACTIVE"]
        nw = mk["winners"]
        per = {}
        for s in set(o.selection_id for o in market.blotter._strategy_orders.get(strategy, ())) | {new_sel}:
            if s == new_sel:
                recs = new_sel_others
            else:
                recs = [r for r in self._recs(market, strategy, s, exclude=exclude) if r["status"] not in UNACK]
            w = {}
            for oc in ("win", "lose"):
                t_ = sum(order_pl_worst(r, oc) for r in recs)
                c_ = sum(order_pl_worst(r, oc, conservative=True) for r in recs)
                if s == new_sel:
                    add = order_pl_worst(new, oc, full=True)
                    t_ += add
                    c_ += add
                w[oc] = (t_, c_)
            per[s] = w
        if len(active) < nw or not active:
            return None, None
        # truth: brute force over every admissible winner set of the active runners (bets on others are void)
        best_t = None
        for W in combinations(active, nw):
            tt = 0.0
            for s, w in per.items():
                if s not in active:
                    continue
                tt += w["win" if s in W else "lose"][0]
            best_t = tt if best_t is None else min(best_t, tt)
        # conservative: the documented counting (every selection with orders, starting-price liabilities always counted)
        loses = sum(w["lose"][1] for w in per.values())
        diffs = sorted([w["win"][1] - w["lose"][1] for w in per.values()] + [0.0] * max(0, st["nar"] - len(per)))[:nw]
        best_c = loses + sum(diffs)
        return -best_t, -best_c

    def on_request_after(self, kind, txn, order, a, k, res, exc):
        p, self.pending = self.pending, None
        if p is None or exc is not None:
            return
        strategy = p["strategy"]
        lo, ls, lm = strategy.max_order_exposure, strategy.max_selection_exposure, strategy.max_market_exposure
        tol = p["tol"]
        site_kind = ("line-market-back-and-lay" if p["two_sided"] else "line-market-one-sided") if p["line"] else "each-way" if p["ew"] else ("replace-lay-to-higher-price" if (kind == "REPLACE" and p["side"] == "LAY" and p["t"] == "LIMIT" and p["price"] is not None and p["old_price"] is not None and p["price"] > p["old_price"]) else "replace-other" if kind == "REPLACE" else "plain")
        pr = self.res.probes
        near = False
        for lim, v in ((lo, p["own"]), (ls, p["truth_sel"]), (lm, p["truth_mkt"])):
            if lim is not None and v is not None and lim > 0 and abs(v - lim) <= 0.25 * lim:
                near = True
        if near:
            pr["c01.decision_near_limit"] += 1
            self.near_seen = True
        accepted = bool(res)
        if accepted:
            pr["c01.accepted.%s" % kind] += 1
            checks = (("order", lo, p["own_truth"] if kind == "REPLACE" or p["ew"] else p["own"], 1e-9), ("selection", ls, p["truth_sel"], tol), ("market", lm, p["truth_mkt"], p["tol_mkt"]))
            pres = {"order": p["pre_own"], "selection": p["pre_sel"], "market": p["pre_mkt"]}
            for name, lim, v, t_ in checks:
                if lim is None or v is None:
                    continue
                if kind == "REPLACE" and (pres[name] is None or v <= pres[name] + 1e-9):
                    continue  # the replace does not make the worst case worse than it already is
                if v > lim + t_ + BAND:
                    self.violate(self.P, "C01.decision", "accepted-over-%s-limit:%s" % (name, site_kind), kind=kind, side=p["side"], type=p["t"], potential=v, limit=lim, tol=t_, price=p["price"], size=p["size"], old_price=p["old_price"], positions=p["n"])
                elif abs(v - lim) <= BAND:
                    pr["c01.accepted_at_exact_boundary"] += 1
            if kind == "REPLACE" and p["side"] == "LAY" and p["t"] == "LIMIT" and p["price"] is not None and p["old_price"] is not None and p["price"] > p["old_price"]:
                pr["c01.replace_lay_to_higher_price"] += 1
                self.lay_up = getattr(self, "lay_up", set())
                self.lay_up.add((strategy.name, p["market_id"], p["sel"]))
            return
        # refused
        ref = self.last_refusal
        pr["c01.refused.%s.%s" % (kind, ref[0] if ref else "?")] += 1
        if kind == "PLACE":
            # a refused new order is a violation, carries a message and is not in the blotter
            if order.status is None or order.status.name != "VIOLATION" or order.id in txn.market.blotter:
                self.violate(self.P, "C01.decision", "refused-order-not-marked-violation", status=order.status.name if order.status else None, in_blotter=order.id in txn.market.blotter)
            self.refused_orders = getattr(self, "refused_orders", set())
            self.refused_orders.add(order._vid)
        if not ref or ref[0] != "STRATEGY_EXPOSURE" or p["line"] or p["ew"] or kind == "REPLACE":
            return
        msg = ref[1]
        which = "order" if msg.startswith("Order exposure") else "selection" if msg.startswith("Potential selection") else "market" if msg.startswith("Potential market") else None
        if which is None:
            return
        pr["c01.refused_by.%s" % which] += 1
        lim, v, t_ = {"order": (lo, p["own"], 1e-9), "selection": (ls, p["cons_sel"], tol), "market": (lm, p["cons_mkt"], p["tol_mkt"])}[which]
        if lim is None:
            self.violate(self.P, "C01.decision", "refused-by-unset-%s-limit" % which, limit=lim)
            return
        if v is None:
            return
        exact = abs(v - lim) <= BAND
        if exact:
            pr["c01.refused_at_exact_boundary"] += 1
        if v < lim - t_ - BAND or (exact and self.dyadic and t_ <= 0.011):
            self.violate(self.P, "C01.decision", "refused-within-%s-limit:%s" % (which, site_kind), kind=kind, side=p["side"], type=p["t"], potential=v, limit=lim, tol=t_, price=p["price"], size=p["size"], message=msg)

    def on_package(self, pkg):
        refused = getattr(self, "refused_orders", ())
        for o in pkg._orders:
            if o._vid in refused:
                self.violate(self.P, "C01.decision", "refused-order-sent", order=o._vid)

    # ---- oracle 2: consequence (with acknowledgement discipline)
    def _audit(self, market, closing=None):
        mtype, div, mk = self._market_info(market.market_id)
        st = self.run.held_state(market.market_id)
        if st is not None and any(rs["st"] == "REMOVED" for rs in st["r"].values()):
            # a runner removal is not among the later histories C01 quantifies over (prices of matched bets are reduced
            # after acceptance): the consequence clause stops for this market, the decision clause keeps working on the
            # positions as they are now
            self.res.probes["c01.consequence_clause_stopped_after_removal"] += 1
            return
        for strategy in self.run.agents:
            if not self.discipline.get(strategy.name):
                continue
            ls = strategy.max_selection_exposure
            if ls is None:
                continue
            by_sel = {}
            for o in market.blotter._strategy_orders.get(strategy, ()):
                if o.status is None or o.status.name == "VIOLATION" or o._vid in self.forced:
                    if o._vid in self.forced:
                        by_sel.setdefault(o.selection_id, None)
                        by_sel[o.selection_id] = "forced"
                    continue
                if by_sel.get(o.selection_id) == "forced":
                    continue
                by_sel.setdefault(o.selection_id, []).append(rec_of(o, mtype, div))
            for sel, recs in by_sel.items():
                if recs == "forced" or not recs:
                    continue
                line = any(r["line"] for r in recs)
                tol = self._tol(recs)
                if closing is not None:
                    realised = -sum(r["o"].profit for r in recs)
                    if realised > ls + tol + BAND:
                        self.violate(self.P, "C01.consequence", "realised-loss-over-selection-limit:%s" % self._site(recs, mtype), strategy=strategy.name, selection=sel, loss=realised, limit=ls, orders=[r["o"]._vid for r in recs])
                    continue
                if line:
                    worst = -line_worst(recs)
                else:
                    worst = max(-sum(order_pl_worst(r, "win") for r in recs), -sum(order_pl_worst(r, "lose") for r in recs))
                if worst > ls + tol + BAND:
                    self.violate(self.P, "C01.consequence", "worst-case-over-selection-limit:%s" % self._site(recs, mtype), strategy=strategy.name, selection=sel, worst_case_loss=worst, limit=ls, orders=[(r["o"]._vid, r["side"], r["type"], r["price"], r["size"], r["status"], r["frags"], r["rem"]) for r in recs])
                if worst > 0.75 * ls:
                    self.res.probes["c01.position_near_limit"] += 1

    def _site(self, recs, mtype):
        if any(r["line"] for r in recs):
            sides = set(r["side"] for r in recs if (r["frags"] or (not r["complete"] and r["rem"])))
            return "line-market-back-and-lay" if len(sides) > 1 else "line-market-one-sided"
        if mtype == "EACH_WAY":
            return "each-way"
        o = recs[0]["o"]
        if (o.trade.strategy.name, o.market_id, o.selection_id) in getattr(self, "lay_up", ()):
            return "after-replace-lay-to-higher-price"
        return "plain"

    def on_update_end(self, mid, j, mb):
        market = self.run.fw.markets.markets.get(mid)
        if market is not None and mb.status != "CLOSED":
            self._audit(market)
            if getattr(self, "near_seen", False) and any(o.simulated.size_matched > 0 or o.simulated.size_cancelled > 0 or o.simulated.size_lapsed > 0 for o in market.blotter):
                self.res.nontrivial = True

    def on_results(self, market, mb):
        self._audit(market, closing=mb)
