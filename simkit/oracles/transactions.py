"""C18 - transaction-limit control: shadow counters fed from what the execution layer actually did."""
import datetime

from ..backtest import Monitor
from .matching import to_ms


class Shadow:
    def __init__(self):
        self.total = 0
        self.hourly = 0
        self.hour = None  # (date, hour) of the last restart


def hour_key(ms):
    d = datetime.datetime.utcfromtimestamp(ms / 1000.0)
    return (d.date(), d.hour)


class TransactionMonitor(Monitor):
    P = "C18"

    def __init__(self, run):
        super().__init__(run)
        self.shadow = {}  # id(client) -> Shadow
        self.fired = []
        self.pre = None
        self.exec_pre = None
        self.clients_spec = run.scenario.get("clients") or [{}]

    def _sh(self, client):
        return self.shadow.setdefault(id(client), Shadow())

    def _control(self, client):
        for c in client.trading_controls:
            if getattr(c, "NAME", None) == "MAX_TRANSACTION_COUNT":
                return c

    def _limit(self, client):
        return client.transaction_limit

    def _compare(self, where):
        for client in self.run.clients:
            ctl = self._control(client)
            sh = self._sh(client)
            if ctl.transaction_count_total != sh.total:
                self.violate(self.P, "C18.total", "total-differs:%s" % where, client=client.username, counter=ctl.transaction_count_total, shadow=sh.total)
                sh.total = ctl.transaction_count_total
            if sh.hour is not None and ctl.current_transaction_count_total != sh.hourly:
                self.violate(self.P, "C18.hourly", "hourly-differs:%s" % where, client=client.username, counter=ctl.current_transaction_count_total, shadow=sh.hourly)
                sh.hourly = ctl.current_transaction_count_total

    # ---- requests
    def on_control_error(self, control, order, error):
        self.fired.append(control.NAME)

    def on_request_before(self, kind, txn, order, a, k):
        self.fired = []
        if kind == "PLACE":
            execute = a[1] if len(a) > 1 else k.get("execute", True)
            force = a[2] if len(a) > 2 else k.get("force", False)
        elif kind == "REPLACE":
            execute, force = True, (a[2] if len(a) > 2 else k.get("force", False))
        elif kind == "CANCEL":
            execute, force = True, (a[1] if len(a) > 1 else k.get("force", False))
        else:
            execute, force = True, (a[-1] if len(a) >= 9 else k.get("force", False))
        client = txn._client
        others = {id(c): (self._control(c).transaction_count_total, self._control(c).current_transaction_count_total, self._control(c)._next_hour) for c in self.run.clients if c is not client}
        self.pre = (execute, force, client, others)

    def on_request_after(self, kind, txn, order, a, k, res, exc):
        if self.pre is None:
            return
        execute, force, client, others = self.pre
        self.pre = None
        pr = self.res.probes
        for c in self.run.clients:
            if c is not client:
                ctl = self._control(c)
                if others[id(c)] != (ctl.transaction_count_total, ctl.current_transaction_count_total, ctl._next_hour):
                    self.violate(self.P, "C18.independent", "request-of-one-client-changed-another-clients-counters", client=client.username, other=c.username)
        if force or not execute:
            if force and "MAX_TRANSACTION_COUNT" in self.fired:
                self.violate(self.P, "C18.block", "forced-request-refused")
            if force:
                pr["c18.forced_request"] += 1
            return
        # did the request reach the client control? (trading controls are consulted first and may refuse before)
        reached = not self.fired or self.fired == ["MAX_TRANSACTION_COUNT"]
        if exc is not None and not self.fired:
            # controls passed, the order's own state guard rejected it afterwards
            reached = True
        if not reached:
            return
        sh = self._sh(client)
        now = self.run.now_ms
        hk = hour_key(now)
        if sh.hour is None:
            sh.hour, sh.hourly = hk, 0
        elif sh.hour != hk:
            if sh.hour[0] != hk[0]:
                pr["c18.restart_across_day_boundary"] += 1
            if (hk[0], hk[1]) < (sh.hour[0], sh.hour[1]):
                pr["c18.restart_after_backwards_clock_jump"] += 1
            sh.hour, sh.hourly = hk, 0
            pr["c18.hourly_restart"] += 1
            self.res.nontrivial = True
        limit = self._limit(client)
        over = limit is not None and sh.hourly > limit
        refused_by_it = "MAX_TRANSACTION_COUNT" in self.fired
        if limit is not None and abs(sh.hourly - limit) <= 1:
            pr["c18.decision_at_limit_boundary"] += 1
        if over:
            self.res.nontrivial = True
            pr["c18.blocked"] += 1
        if over and not refused_by_it:
            self.violate(self.P, "C18.block", "request-accepted-although-hourly-figure-exceeds-limit", hourly=sh.hourly, limit=limit, kind=kind)
        if refused_by_it and not over:
            self.violate(self.P, "C18.block", "request-refused-although-hourly-figure-within-limit", hourly=sh.hourly, limit=limit, kind=kind, limit_is_none=limit is None)
        self._compare("request")

    # ---- executions
    def on_exec_before(self, pkg):
        self.exec_pre = {o._vid: (len(o.responses.cancel_responses), len(o.responses.update_responses), o.status.name if o.status else None) for o in pkg._orders}
        self.exec_created = []

    def on_order_created(self, order):
        if getattr(self, "exec_created", None) is not None:
            self.exec_created.append(order)

    def on_exec_after(self, pkg):
        kind = pkg.package_type.name
        client = pkg.client
        sh = self._sh(client)
        n = 0
        orders = [o for o in pkg._orders if o.status is None or o.status.name != "VIOLATION"]
        if kind == "PLACE":
            n = len(orders)
        elif kind == "CANCEL":
            for o in orders:
                c0 = self.exec_pre.get(o._vid, (0, 0, None))[0]
                n += sum(1 for r in o.responses.cancel_responses[c0:] if r.status == "FAILURE")
        elif kind == "UPDATE":
            for o in orders:
                u0 = self.exec_pre.get(o._vid, (0, 0, None))[1]
                n += sum(1 for r in o.responses.update_responses[u0:] if r.status == "FAILURE")
        elif kind == "REPLACE":
            # replacement instructions submitted: orders that had not completed when the package was executed
            orders = [o for o in orders if self.exec_pre.get(o._vid, (0, 0, None))[2] != "EXECUTION_COMPLETE"]
            n = len(orders)
            for o in orders:
                c0 = self.exec_pre.get(o._vid, (0, 0, None))[0]
                n += sum(1 for r in o.responses.cancel_responses[c0:] if r.status == "FAILURE")
        sh.total += n
        if sh.hour is not None:
            sh.hourly += n
        self.res.probes["c18.exec.%s" % kind] += 1
        self.exec_created = None
        self._compare("execution:%s" % kind)


class LiveTransactionMonitor(TransactionMonitor):
    """World B: executions finish on pool tasks in any order relative to each other and to new requests. The shadow is fed
    from the increments the execution layer reports (add_transaction); what is checked here is the hourly restart and the
    blocking verdict under those interleavings (exactness of the increments themselves is C12.counts)."""

    def on_exec_before(self, pkg):
        pass

    def on_exec_after(self, pkg):
        self.res.probes["c18.live.exec_finished"] += 1

    def on_add_transaction(self, control, count, failed):
        sh = self._sh(control.client)
        sh.total += count
        if sh.hour is not None:
            sh.hourly += count
        if any(t.state.startswith("parked") for t in getattr(self.run, "tasks", ())):
            self.res.probes["c18.live.count_added_while_other_call_in_flight"] += 1
            self.res.nontrivial = True
        self._compare("add_transaction")


class LiveClientCounts(Monitor):
    """World B, several clients on one execution object: at the end of the session every client is charged exactly what
    ITS OWN answered calls submitted (placement and replacement instructions) plus the failed instructions reported to it
    (own reference: the API calls seen at the transport seam, attributed through the package being executed on that thread)."""

    P = "C18"

    def __init__(self, run):
        super().__init__(run)
        self.cur = {}  # thread id -> package being executed
        self.calls = {}  # n -> (client, method, request, plan)
        self.applied = {}

    def on_exec_before(self, pkg):
        import threading

        self.cur[threading.get_ident()] = pkg

    def on_api_call(self, n, method, request, plan):
        import threading

        pkg = self.cur.get(threading.get_ident())
        if pkg is not None:
            self.calls[n] = (pkg.client, method, request, plan)

    def on_api_applied(self, n, method, request, response):
        self.applied[n] = response

    def on_quiescent(self, kind):
        if kind != "final" or len(self.run.clients) < 2:
            return
        for client in self.run.clients:
            want = 0
            for n, (c, method, request, plan) in self.calls.items():
                resp = self.applied.get(n)
                if c is not client or resp is None or plan.get("transport"):
                    continue
                reps = resp["result"]["instructionReports"]
                if method == "placeOrders":
                    want += len(request["params"]["instructions"])
                elif method == "replaceOrders":
                    want += len(request["params"]["instructions"])
                    want += sum(1 for r in reps if r["cancelInstructionReport"]["status"] == "FAILURE")
                else:
                    want += sum(1 for r in reps if r["status"] == "FAILURE")
            got = client.transaction_count_total
            self.res.probes["c18.live.client_charge_compared_with_its_own_calls"] += 1
            if got != want:
                self.violate(self.P, "C18.isolation", "client-charged-differs-from-its-own-calls", client=client.username, charged=got, own_calls=want, clients=len(self.run.clients))
