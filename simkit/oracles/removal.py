"""C09 - runner removal voids bets on the runner and reduces the others exactly once."""
from ..backtest import Monitor
from .ledger import is_limit

EPS = 1e-9


def reduce_price(p, f):
    return max(round(p * (1 - f / 100.0), 2), 1.01)


class RemovalMonitor(Monitor):
    P = "C09"

    def __init__(self, run):
        super().__init__(run)
        self.removed = {}  # (mid, sel) -> factor, once observed by the oracle
        self.snap = None
        self.new = []
        self.voided = {}  # vid -> True for orders on removed runners
        self.seen_factor_keys = {}  # (sel, factor) -> set(mid): same removal in several markets
        self.reduced = {}  # vid -> order whose fills were reduced by a removal

    def on_before_matching(self, market):
        mid = market.market_id
        st = self.run.held_state(mid)
        self.new = []
        if st is None:
            self.snap = None
            return
        mk = self.run.markets_by_id[mid]
        for sel in mk["runners"]:
            rs = st["r"][str(sel)]
            if rs["st"] == "REMOVED" and (mid, sel) not in self.removed:
                self.removed[(mid, sel)] = rs["af"]
                self.new.append((sel, rs["af"]))
                self.res.faults["c09.removal.factor=%s" % ("none" if rs["af"] is None else "zero" if rs["af"] == 0 else "below2.5" if rs["af"] < 2.5 else "at2.5" if rs["af"] == 2.5 else "above2.5")] += 1
                ks = self.seen_factor_keys.setdefault((sel, rs["af"]), set())
                ks.add(mid)
                if len(ks) > 1:
                    self.res.probes["c09.same_removal_in_2_markets"] += 1
        self.snap = {}
        for o in market.blotter:
            self.snap[o._vid] = (
                o,
                [list(m) for m in o.simulated.matched],
                getattr(o.order_type, "liability", None),
                o.simulated.size_matched,
                o.status.name if o.status else None,
            )

    def on_after_matching(self, market):
        if self.snap is None:
            return
        mid = market.market_id
        st = self.run.held_state(mid)
        mk = self.run.markets_by_id[mid]
        mtype = mk["market_type"]
        new = self.new
        on_removed = 0
        matched_elsewhere = 0
        for vid, (o, frags0, liab0, sm0, st0) in self.snap.items():
            sel = o.selection_id
            if (mid, sel) in self.removed:
                # ---- void
                if (sel, self.removed[(mid, sel)]) in new:
                    on_removed += 1
                    self.res.probes["c09.order_state_at_removal.%s" % st0] += 1
                    if o.simulated.size_cancelled > 0 or frags0:
                        self.res.probes["c09.removal_hit_partly_filled_or_cancelled"] += 1
                if (sel, self.removed[(mid, sel)]) not in new and vid not in self.voided and st0 == "PENDING":
                    continue  # placed after the removal and not yet at the exchange: its placement will fail
                self.voided[vid] = o
                if any(m[2] > 0 for m in o.simulated.matched) or abs(o.simulated.size_matched) > EPS or (is_limit(o) and abs(o.size_remaining) > 1e-6):
                    self.violate(self.P, "C09.void", "order-on-removed-runner-not-void:%s" % ("new-removal" if (sel, self.removed[(mid, sel)]) in new else "later"), order=vid, matched=o.simulated.size_matched, fragments=[list(m) for m in o.simulated.matched], remaining=o.size_remaining, status=o.status.name, voided=o.simulated.size_voided)
                continue
            # ---- other runners
            exp = [list(f) for f in frags0]
            exp_liab = liab0
            moc_lay = o.order_type.ORDER_TYPE.name == "MARKET_ON_CLOSE" and o.side == "LAY"
            for rsel, f in new:
                if moc_lay:
                    if f is None:
                        continue
                    if mtype == "WIN":
                        own = st["r"][str(sel)]["af"]
                        exp_liab = exp_liab * (1 - f / (100 - own))
                    elif mtype in ("PLACE", "OTHER_PLACE"):
                        exp_liab = exp_liab * ((100 - f) * 0.01)
                elif f is not None and f >= 2.5:
                    for fr in exp:
                        fr[1] = reduce_price(fr[1], f)
                    if exp:
                        self.reduced[vid] = o
            got = [list(m) for m in o.simulated.matched[: len(exp)]]
            if frags0:
                matched_elsewhere += 1
            if not moc_lay:
                if len(o.simulated.matched) < len(exp) or any(abs(g[1] - e[1]) > EPS or abs(g[2] - e[2]) > EPS for g, e in zip(got, exp)):
                    site = "reduction-applied-%s" % ("wrongly" if new else "again-or-without-removal")
                    clause = "C09.reduce" if new else "C09.once"
                    self.violate(self.P, clause, site, order=vid, before=frags0, after=got, expected=exp, removals=new, market=mid)
            else:
                if new:
                    self.res.probes["c09.sp_lay_rescaled.%s" % mtype] += 1
                if abs((o.order_type.liability or 0) - (exp_liab or 0)) > 1e-9 * max(1, abs(exp_liab or 0)):
                    self.violate(self.P, "C09.sp-lay" if new else "C09.once", "moc-lay-liability", order=vid, before=liab0, after=o.order_type.liability, expected=exp_liab, removals=new, market_type=mtype)
        # the reduction stays in force: the order's average matched price is that of its (reduced) fills, also after later fills
        for vid, o in self.reduced.items():
            if o.market_id != mid or not o.simulated.matched:
                continue
            tot = sum(m[2] for m in o.simulated.matched)
            if tot <= 0:
                continue
            avg = sum(m[1] * m[2] for m in o.simulated.matched) / tot
            if len(o.simulated.matched) > len(self.snap.get(vid, (None, []))[1]):
                self.res.probes["c09.fill_after_reduction"] += 1
            if abs(o.simulated.average_price_matched - avg) > 0.00501:
                self.violate(self.P, "C09.reduce", "reduction-lost-from-average-price", order=vid, average_price_matched=o.simulated.average_price_matched, fills=[list(m) for m in o.simulated.matched], expected=round(avg, 4))
        if new and on_removed and matched_elsewhere:
            self.res.nontrivial = True
        if new and on_removed:
            self.res.probes["c09.removal_with_orders_on_runner"] += 1
        self.snap = None

    def on_strategy_call(self, strategy, market, kind):
        if kind not in ("book", "orders"):
            return
        for vid, o in self.voided.items():
            if o.market_id != market.market_id:
                continue
            inflight = o.status.name in ("PENDING", "CANCELLING", "UPDATING", "REPLACING")
            if not o.complete and not inflight:
                self.violate(self.P, "C09.void", "voided-order-not-complete", order=vid, status=o.status.name, remaining=o.size_remaining)

    def on_results(self, market, mb):
        for vid, o in self.voided.items():
            if o.market_id == market.market_id and o.profit != 0:
                self.violate(self.P, "C09.void", "voided-order-has-profit", order=vid, profit=o.profit)

    def on_end(self):
        # a removal that the generator put into the data must have voided every order on that runner
        for market in self.run.fw.markets:
            mid = market.market_id
            for o in market.blotter:
                if (mid, o.selection_id) in self.removed and o._vid not in self.voided and o.status is not None and o.status.name != "VIOLATION":
                    # order created after the removal update: placement must have failed
                    if o.simulated.size_matched > 0:
                        self.violate(self.P, "C09.void", "order-on-removed-runner-matched-later", order=o._vid)
