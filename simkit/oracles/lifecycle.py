"""C03 (order lifecycle), C10 (trade / runner accounting), C15 (blotter views) oracles.
World-independent: they only look at flumine objects and hook events, so the live world reuses them."""
from ..backtest import Monitor

ALLOWED = {
    (None, "PENDING"),
    (None, "VIOLATION"),
    ("PENDING", "EXECUTABLE"),
    ("PENDING", "EXECUTION_COMPLETE"),
    ("EXECUTABLE", "CANCELLING"),
    ("EXECUTABLE", "UPDATING"),
    ("EXECUTABLE", "REPLACING"),
    ("EXECUTABLE", "EXECUTION_COMPLETE"),
    ("CANCELLING", "EXECUTABLE"),
    ("CANCELLING", "EXECUTION_COMPLETE"),
    ("UPDATING", "EXECUTABLE"),
    ("UPDATING", "EXECUTION_COMPLETE"),
    ("REPLACING", "EXECUTABLE"),
    ("REPLACING", "EXECUTION_COMPLETE"),
    # idempotent re-assertions are not status changes
    ("EXECUTABLE", "EXECUTABLE"),
    ("EXECUTION_COMPLETE", "EXECUTION_COMPLETE"),
    # an order that was never sent and is refused again stays a violation
    ("VIOLATION", "VIOLATION"),
}
INFLIGHT = ("PENDING", "CANCELLING", "UPDATING", "REPLACING")


def caller_name(depth=3):
    import sys

    f = sys._getframe(depth)
    # skip the wrapper and the status helper (executable(), execution_complete(), ...)
    names = []
    for _ in range(6):
        if f is None:
            break
        names.append(f.f_code.co_name)
        f = f.f_back
    for n in names:
        if n not in ("update_status", "_update_status", "executable", "execution_complete", "placing", "cancelling", "updating", "replacing", "violation", "_dispatch", "status_before", "on_status_before", "on_status", "_reset_order"):
            return n
    return names[-1] if names else "?"


def eligible(kind, order, args, kwargs):
    """Independent re-statement of when an exchange order accepts a cancel / update / replace."""
    st = order.status.name if order.status else None
    t = order.order_type.ORDER_TYPE.name
    if order.EXCHANGE is not None and order.EXCHANGE.name == "BETDAQ":
        if kind == "REPLACE":
            return False  # no replace on Betdaq
        if kind == "CANCEL" and (args[0] if args else kwargs.get("size_reduction")):
            return False  # no partial cancel on Betdaq (update() is used instead)
        return order.bet_id is not None and st == "EXECUTABLE" and t == "LIMIT"
    if order.bet_id is None or st != "EXECUTABLE":
        return False
    if kind == "CANCEL":
        red = args[0] if args else kwargs.get("size_reduction")
        if t != "LIMIT":
            return False
        if red and order.size_remaining - red < 0:
            return False
        return True
    if kind == "UPDATE":
        new = args[0] if args else kwargs.get("new_persistence_type")
        return t == "LIMIT" and order.order_type.persistence_type != new
    if kind == "REPLACE":
        new = args[0] if args else kwargs.get("new_price")
        return t in ("LIMIT", "LIMIT_ON_CLOSE") and order.order_type.price != new
    return True


class LifecycleMonitor(Monitor):
    """C03"""

    P = "C03"

    def __init__(self, run):
        super().__init__(run)
        self.log = {}  # vid -> [status names]
        self.completed_at = {}  # vid -> matched size when first seen complete after having been sent
        self.inflight = {}  # vid -> number of packages containing it that are undelivered/unanswered
        self.inflight_mod = {}  # vid -> kinds of cancel/update/replace packages handed over and not answered yet
        self.exec_pkgs = {}  # thread id -> stack of packages whose execution handler is running on that thread
        self.answered_early = set()  # (id(package), vid): the order's report was applied before the handler finished
        self.orders = {}
        self.pending_req = None
        self.removed_exempt = set()
        self.live = hasattr(run, "exchange")  # World B: an order is acknowledged by the order stream or by the response

    def on_status_before(self, order, prev, new):
        self._caller = caller_name()

    def on_status(self, order, prev, new):
        vid = order._vid
        self.orders[vid] = order
        p, n = (prev.name if prev else None), new.name
        self.log.setdefault(vid, []).append(n)
        who = getattr(self, "_caller", "?")
        if (p, n) not in ALLOWED:
            self.violate(self.P, "C03.transition", "%s->%s via %s" % (p, n, who), order=vid, status_log=[s.name for s in order.status_log])
        if p == "EXECUTION_COMPLETE" and n != "EXECUTION_COMPLETE" and "PENDING" in self.log[vid]:
            self.violate(self.P, "C03.finality", "live-again:%s via %s" % (n, who), order=vid, status_log=[s.name for s in order.status_log])
        if p is not None and p != n and p in INFLIGHT + ("EXECUTABLE",):
            self.res.probes["c03.transition.%s->%s" % (p, n)] += 1
        if n == "EXECUTION_COMPLETE" and vid not in self.completed_at and "PENDING" in self.log[vid]:
            self.completed_at[vid] = order.size_matched
        import threading

        cur = self.exec_pkgs.get(threading.get_ident())
        if cur and p in ("CANCELLING", "UPDATING", "REPLACING") and n != p and any(order is o for o in cur[-1]._orders):
            # the report of this order's own package has just been applied to it: for THIS order the operation is answered,
            # although the handler may still be busy with the other reports of the package (it can be suspended there)
            kind_ = cur[-1].package_type.name
            if kind_ in self.inflight_mod.get(vid, []):
                self.inflight_mod[vid].remove(kind_)
                self.answered_early.add((id(cur[-1]), vid))
        if cur and p in ("CANCELLING", "UPDATING", "REPLACING") and n != p and cur[-1].package_type.name == "PLACE" and self.inflight_mod.get(vid) and any(order is o for o in cur[-1]._orders):
            # (round 21, C03-l) the failure recovery of the order's PLACE package (retries used up while the order stream had
            # already acknowledged the bet and the strategy had sent a modification) must leave an order alone whose own
            # cancel / update / replace is outstanding. Only the recovery path is judged: a late *successful* place reply that
            # overwrites such a state is a different, known race of the unchanged tree (observed, not claimed).
            import sys as _sys

            f, in_recovery = _sys._getframe(1), False
            for _ in range(14):
                if f is None:
                    break
                if f.f_code.co_name == "reset_orders":
                    in_recovery = True
                    break
                f = f.f_back
            self.res.probes["c03.place_package_changes_order_with_modification_outstanding%s" % (".in_recovery" if in_recovery else "")] += 1
            if in_recovery:
                self.violate(self.P, "C03.one-in-flight", "in-flight-order-released-by-the-recovery-of-its-place-package:%s->%s" % (p, n), order=vid, outstanding=list(self.inflight_mod.get(vid, [])), status_log=[s.name for s in order.status_log][-6:])
        if cur and p in ("CANCELLING", "UPDATING", "REPLACING") and n != p and all(order is not o for o in cur[-1]._orders):
            # the reply to a package is being applied on this thread, and it changes the state of an order that is NOT in
            # that package while that order's own request is outstanding
            self.violate(self.P, "C03.one-in-flight", "in-flight-order-released-by-the-reply-to-another-package:%s->%s" % (p, n), order=vid, package=cur[-1].package_type.name, package_orders=[o._vid for o in cur[-1]._orders], status_log=[s.name for s in order.status_log][-6:])
        if p == "UPDATING" and n != "UPDATING" and getattr(getattr(order, "EXCHANGE", None), "name", "") == "BETDAQ" and "UPDATE" in self.inflight_mod.get(vid, []):
            # Betdaq by design: an update is answered by the polling (new sequence number), not by the call's reply
            self.inflight_mod[vid].remove("UPDATE")
            self.res.probes["c03.betdaq.update_resolved_by_polling_before_reply"] += 1

    def _matched_constant(self, where):
        for vid, m0 in self.completed_at.items():
            o = self.orders[vid]
            if vid in self.removed_exempt:
                continue
            m = o.size_matched
            if abs(m - m0) > 1e-9:
                if self.live and m > m0:
                    # live: the response completed the order before the order stream conveyed its last fill;
                    # the local view catching up with the exchange is not a change of the bet
                    self.res.probes["c03.live.matched_caught_up_after_completion"] += 1
                    self.completed_at[vid] = m
                    continue
                if self._void_or_rescale(o):
                    self.removed_exempt.add(vid)
                    continue
                self.violate(self.P, "C03.finality", "matched-size-changed-after-completion", order=vid, before=m0, after=m, where=where)
                self.completed_at[vid] = m

    def _void_or_rescale(self, o):
        run = self.run
        st = getattr(run, "held_state", lambda m: None)(o.market_id)
        if st is None:
            return True
        if any(rs["st"] == "REMOVED" for rs in st["r"].values()):
            return True  # void of the order's runner, or SP-lay re-scaling after a non-runner (C04/C09 define these)
        return False

    def on_update_end(self, mid, j, mb):
        self._matched_constant("update_end")

    def on_step_end(self):
        self._matched_constant("handler_step_end")

    # requests: guards
    def on_request_before(self, kind, txn, order, a, k):
        self.pending_req = None
        if kind == "PLACE":
            return
        self.pending_req = (kind, eligible(kind, order, a, k), order.status.name if order.status else None, self.inflight.get(order._vid, 0))

    def on_request_after(self, kind, txn, order, a, k, res, exc):
        pr, self.pending_req = self.pending_req, None
        if pr is None:
            return
        kind_, ok, st0, nfl = pr
        self.res.probes["c03.request.%s.on.%s" % (kind, st0)] += 1
        if not ok:
            self.res.probes["c03.illegal_request_attempted.%s" % st0] += 1
            if exc is None and res is not False:
                self.violate(self.P, "C03.guard", "%s-accepted-on-%s" % (kind.lower(), st0), order=order._vid, bet_id=order.bet_id, type=order.order_type.ORDER_TYPE.name)
        if res is True and nfl > 0 and not self.live:
            self.violate(self.P, "C03.one-in-flight", "%s-accepted-while-operation-outstanding" % kind.lower(), order=order._vid, outstanding=nfl)
        if res is True and self.live and self.inflight_mod.get(order._vid):
            # live: a cancel/update/replace of this order has been handed to the execution layer and has not been answered
            # (placements are different: the order stream may acknowledge an async placement before the response)
            self.violate(self.P, "C03.one-in-flight", "%s-accepted-while-%s-outstanding" % (kind.lower(), "/".join(sorted(self.inflight_mod[order._vid])).lower()), order=order._vid, status_before=st0, status_log=[x.name for x in order.status_log][-6:])

    def on_package(self, pkg):
        for o in pkg._orders:
            if pkg.package_type.name != "PLACE":
                self.inflight_mod.setdefault(o._vid, []).append(pkg.package_type.name)
            n = self.inflight.get(o._vid, 0) + 1
            self.inflight[o._vid] = n
            if n > 1 and not self.live:
                self.violate(self.P, "C03.one-in-flight", "two-packages-outstanding:%s" % pkg.package_type.name, order=o._vid, outstanding=n)

    def on_exec_before(self, pkg):
        import threading

        self.exec_pkgs.setdefault(threading.get_ident(), []).append(pkg)

    def on_exec_after(self, pkg):
        import threading

        st = self.exec_pkgs.get(threading.get_ident())
        if st:
            st.pop()
        seen = self.__dict__.setdefault("_retries", {})
        if getattr(pkg, "_retry_count", 0) > seen.get(id(pkg), 0):
            seen[id(pkg)] = pkg._retry_count
            return  # the package was re-submitted (retry): it is still outstanding
        if pkg.package_type.name == "PLACE" and getattr(pkg, "_retry_count", 0) >= getattr(pkg, "_max_retries", 3):
            # reach probe for the round-21 clause: the last attempt of a PLACE package has returned (all retries used) while
            # an order of it, acknowledged by the stream meanwhile, has its own modification outstanding
            if any(o.status.name in ("CANCELLING", "UPDATING", "REPLACING") and self.inflight_mod.get(o._vid) for o in pkg._orders):
                self.res.probes["c03.place_retries_exhausted_while_an_order_of_the_package_has_a_modification_outstanding"] += 1
        for o in pkg._orders:
            self.inflight[o._vid] = max(0, self.inflight.get(o._vid, 0) - 1)
            if (id(pkg), o._vid) in self.answered_early:
                self.answered_early.discard((id(pkg), o._vid))
            elif pkg.package_type.name != "PLACE" and pkg.package_type.name in self.inflight_mod.get(o._vid, []):
                self.inflight_mod[o._vid].remove(pkg.package_type.name)
        # a response applied after the order's state was changed by a market event since the request
        for o in pkg._orders:
            lg = self.log.get(o._vid, [])
            if len(lg) >= 3 and lg[-2] == "EXECUTION_COMPLETE" and lg[-3] in INFLIGHT:
                self.res.nontrivial = True
                self.res.probes["c03.response_after_completion"] += 1

    def on_end(self):
        for vid, o in self.orders.items():
            if [s.name for s in o.status_log] != self.log.get(vid):
                self.violate(self.P, "C03.transition", "status_log-differs-from-recorded-transitions", order=vid, status_log=[s.name for s in o.status_log], recorded=self.log.get(vid))
        if any(v for k, v in self.res.probes.items() if k.startswith("c03.illegal_request_attempted")):
            self.res.nontrivial = True


class AccountingMonitor(Monitor):
    """C10"""

    P = "C10"

    def __init__(self, run):
        super().__init__(run)
        self.trade_completions = {}  # trade id -> count
        self.trades = {}
        self.pre = None
        self.placed_trades = {}  # (strategy, lookup) -> ordered set of trade ids charged through an executed placement/adoption
        self.own_last_place = {}  # (strategy, lookup) -> simulated ms of the latest accepted, executed placement
        self._refusal_msg = None
        self.ctx_stamps = {}  # id(runner context) -> {"place": ms, "reset": ms} own clock at flumine's stamping calls
        self.own_last_done = {}  # (strategy, lookup) -> simulated ms at which the last live order of a placed trade completed (never later than the trade's completion)
        self.in_exec = 0

    def on_exec_before(self, pkg):
        self.in_exec += 1

    def on_order_created(self, order):
        # replacement orders are created by the execution layer, everything else by the strategy
        order._by_execution = self.in_exec > 0

    def on_status(self, order, prev, new):
        if order.complete and order.trade is not None and order.trade.status.name != "COMPLETE" and order.trade.orders and all(o.complete for o in order.trade.orders):
            key = (order.trade.strategy.name, order.lookup)
            if order.trade.id in self.placed_trades.get(key, ()):
                # candidate only: a replacement created in the same handler keeps the trade live (confirmed when used)
                self.own_last_done.setdefault(key, {})[order.trade.id] = (order.trade, self.run.now_ms)

    def _ctx(self, strategy, lookup):
        return strategy._invested.get(lookup)

    # own clock readings at the instants flumine stamps a runner (placement / completed trade): the reference for "has the
    # cool-down elapsed", independent of how the runner context computes its elapsed seconds
    def on_ctx_place(self, ctx):
        self.ctx_stamps.setdefault(id(ctx), {})["place"] = self.run.now_ms

    def on_ctx_reset(self, ctx):
        self.ctx_stamps.setdefault(id(ctx), {})["reset"] = self.run.now_ms

    def _refused_by_cooldown(self, order):
        """A placement refused with the cool-down as the stated reason although the cool-down has elapsed (own clock)."""
        msg = self._refusal_msg or ""  # the reason given at THIS refusal (order.violation_msg may stem from an earlier one)
        strategy = order.trade.strategy
        ctx = self._ctx(strategy, order.lookup)
        st = self.ctx_stamps.get(id(ctx)) if ctx is not None else None
        if not st:
            return
        slack = 0.002 if self.run.scenario.get("world") == "B" else 0.0
        for word, key, limit in (("placed_elapsed_seconds", "place", order.trade.place_reset_seconds), ("reset_elapsed_seconds", "reset", order.trade.reset_seconds)):
            if word in msg and key in st and limit:
                el = (self.run.now_ms - st[key]) / 1000.0
                self.res.probes["c10.refusal_by_cooldown_checked_against_own_clock"] += 1
                if el >= limit + slack + 1e-9:
                    self.violate(self.P, "C10.not-locked", "refused-by-a-cool-down-that-has-elapsed:%s" % word, elapsed=el, cool_down=limit, message=msg[:160])

    def on_request_before(self, kind, txn, order, a, k):
        self.pre = None
        self._refusal_msg = None
        if kind != "PLACE":
            return
        execute = a[1] if len(a) > 1 else k.get("execute", True)
        force = a[2] if len(a) > 2 else k.get("force", False)
        if not execute:
            return
        strategy = order.trade.strategy
        ctx = self._ctx(strategy, order.lookup)
        now = self.run.now_ms
        self.pre = {
            "force": force,
            "live": list(ctx.live_trades) if ctx else [],
            "trades": list(ctx.trades) if ctx else [],
            "last_placed": ctx.datetime_last_placed if ctx else None,
            "last_reset": ctx.datetime_last_reset if ctx else None,
            "now": now,
        }

    def on_request_after(self, kind, txn, order, a, k, res, exc):
        pre, self.pre = self.pre, None
        if pre is not None and exc is None and res is False and not pre["force"]:
            self._refused_by_cooldown(order)
        if pre is None or exc is not None or not res:
            return
        strategy = order.trade.strategy
        key = (strategy.name, order.lookup)
        self.placed_trades.setdefault(key, [])
        if order.trade.id not in self.placed_trades[key]:
            self.placed_trades[key].append(order.trade.id)
        # own journal of accepted placements per runner (independent of the runner context's time stamp)
        own_prev = self.own_last_place.get(key)
        self.own_last_place[key] = pre["now"]
        if pre["force"]:
            return
        from .matching import to_ms

        tid = order.trade.id
        live_after = set(pre["live"]) | {tid}
        trades_after = set(pre["trades"]) | {tid}
        exempt = strategy.multi_order_trades and tid in pre["live"]
        pr = self.res.probes
        if len(order.trade.orders) >= 2:
            self.res.nontrivial = True
            pr["c10.multi_order_trade"] += 1
        if not exempt:
            if len(live_after) > strategy.max_live_trade_count:
                self.violate(self.P, "C10.limits", "max_live_trade_count-exceeded", live=len(live_after), limit=strategy.max_live_trade_count)
            if len(trades_after) > strategy.max_trade_count:
                self.violate(self.P, "C10.limits", "max_trade_count-exceeded", trades=len(trades_after), limit=strategy.max_trade_count)
            if pre["last_placed"] is not None and order.trade.place_reset_seconds:
                el = (pre["now"] - to_ms(pre["last_placed"])) / 1000.0
                if el == 0:
                    pr["c10.zero_elapsed_placement"] += 1
                if el < order.trade.place_reset_seconds - 1e-9:
                    self.violate(self.P, "C10.limits", "place_reset_seconds-not-respected:elapsed=%s" % ("0" if el == 0 else ">0"), elapsed=el, place_reset_seconds=order.trade.place_reset_seconds)
            if own_prev is not None and order.trade.place_reset_seconds:
                el = (pre["now"] - own_prev) / 1000.0
                if len(self.placed_trades[key]) >= 2:
                    pr["c10.place_cooldown_checked_against_own_journal"] += 1
                if el < order.trade.place_reset_seconds - 1e-9:
                    self.violate(self.P, "C10.limits", "place_reset_seconds-not-respected:since-latest-placement-on-runner", elapsed=el, place_reset_seconds=order.trade.place_reset_seconds, context_elapsed=None if pre["last_placed"] is None else (pre["now"] - to_ms(pre["last_placed"])) / 1000.0)
            done = [t for (tr, t) in self.own_last_done.get(key, {}).values() if tr.status.name == "COMPLETE" and tr is not order.trade and all(o.complete for o in tr.orders)]
            own_done = max(done) if done else None
            if own_done is not None and order.trade.reset_seconds and pre["last_reset"] is not None:
                # flumine's own stamp may legitimately be later than ours (a trade completes at or after its last order), never much earlier
                el_own = (pre["now"] - own_done) / 1000.0
                el_ctx = (pre["now"] - to_ms(pre["last_reset"])) / 1000.0
                pr["c10.reset_cooldown_checked_against_own_journal"] += 1
                if el_own < order.trade.reset_seconds - 1e-9 and el_ctx >= order.trade.reset_seconds - 1e-9:
                    self.violate(self.P, "C10.limits", "reset_seconds-not-respected:since-latest-completed-trade-on-runner", elapsed=el_own, context_elapsed=el_ctx, reset_seconds=order.trade.reset_seconds)
            if pre["last_reset"] is not None and order.trade.reset_seconds:
                el = (pre["now"] - to_ms(pre["last_reset"])) / 1000.0
                if el < order.trade.reset_seconds - 1e-9:
                    self.violate(self.P, "C10.limits", "reset_seconds-not-respected:elapsed=%s" % ("0" if el == 0 else ">0"), elapsed=el, reset_seconds=order.trade.reset_seconds)
            if len(live_after) == strategy.max_live_trade_count or len(trades_after) == strategy.max_trade_count:
                pr["c10.limit_bound"] += 1

    def on_control_error(self, control, order, error):
        self._refusal_msg = str(error)
        if control.NAME == "STRATEGY_EXPOSURE" and "validate_order" in str(error):
            self.res.nontrivial = True
            self.res.probes["c10.refused_by_validate_order"] += 1

    def audit(self, market, where):
        run = self.run
        by = {}
        for o in market.blotter:
            by.setdefault((o.trade.strategy, o.lookup), []).append(o)
        for (strategy, lookup), orders in by.items():
            ctx = self._ctx(strategy, lookup)
            if ctx is None:
                self.violate(self.P, "C10.count", "runner-context-missing", strategy=strategy.name, lookup=list(lookup), where=where)
                continue
            trades = []
            for o in orders:
                if o.trade not in trades:
                    trades.append(o.trade)
            in_handler = any(t.status.name == "PENDING" for t in trades)
            def holds(t):
                # an order of the trade that is at the exchange and not complete, or one the strategy has created on the
                # trade and not placed yet (it keeps the trade open by design), holds the trade live
                for o in t.orders:
                    if o.id in market.blotter:
                        if not o.complete:
                            return True
                    elif o.status is None and not getattr(o, "_by_execution", False):
                        return True
                return False

            exp_live = [t.id for t in trades if holds(t)]
            site = None
            got_live = list(ctx.live_trades)
            if sorted(got_live) != sorted(exp_live):
                stuck = [t for t in trades if t.id in got_live and t.id not in exp_live]
                if stuck and any(o.status is None for t in stuck for o in t.orders):
                    site = "trade-held-live-by-unplaced-replacement-order"
                elif stuck:
                    site = "live-trade-with-all-orders-complete"
                else:
                    site = "trade-with-live-order-not-charged"
                self.violate(self.P, "C10.live", site, strategy=strategy.name, lookup=list(lookup), live_trades=len(got_live), expected=len(exp_live), where=where, orders=[(o._vid, o.status.name if o.status else None, o.complete) for o in orders], trade_status=[t.status.name for t in trades])
            if ctx.trade_count != len(trades) or len(set(ctx.trades)) != len(ctx.trades):
                self.violate(self.P, "C10.count", "trade_count", trade_count=ctx.trade_count, distinct_trades=len(trades), where=where)
            if all(o.complete for o in orders) and not any(holds(t) for t in trades) and ctx.live_trade_count != 0:
                self.violate(self.P, "C10.not-locked", site or "all-orders-complete-but-live-trades", strategy=strategy.name, lookup=list(lookup), live_trade_count=ctx.live_trade_count, where=where)
            for t in trades:
                if t.pending_orders:
                    continue
                all_c = all(o.complete for o in t.orders)
                blotter_c = not holds(t)
                stn = t.status.name
                if stn == "PENDING":
                    self.violate(self.P, "C10.complete-iff", "trade-pending-outside-handler", trade_orders=[o._vid for o in t.orders], where=where)
                elif (stn == "COMPLETE") != blotter_c:
                    self.violate(self.P, "C10.complete-iff", "trade-%s-but-orders-%s%s" % (stn.lower(), "complete" if blotter_c else "live", "" if all_c == blotter_c else ":unplaced-order-in-trade"), trade_orders=[(o._vid, o.status.name if o.status else None) for o in t.orders], trade_status_log=[s.name for s in t.status_log], where=where)
                n_c = sum(1 for s in t.status_log if s.name == "COMPLETE")
                if n_c > 1:
                    self.violate(self.P, "C10.complete-iff", "trade-completed-more-than-once", completions=n_c, trade_status_log=[s.name for s in t.status_log])

    def on_update_end(self, mid, j, mb):
        market = self.run.fw.markets.markets.get(mid)
        if market is not None and mb.status != "CLOSED":
            self.audit(market, "update_end")

    def on_quiescent(self, kind):
        """World B, after the drain and the final order image: the runner accounting must follow the real state of the
        bets, i.e. the exchange's: a trade with a bet that is still live at the exchange is a live trade."""
        if kind == "before-final-image" and hasattr(self.run, "exchange") and not any(set(plan) - {"match_on_place"} for plan in (self.run.scenario.get("faults") or {}).values()):
            # everything has been delivered and answered (no message in flight, no task, empty queue) and the closing full
            # image has NOT been sent yet: a runner still charged with a live trade all of whose bets are complete at the
            # exchange is locked until something else happens to arrive
            ex = self.run.exchange
            for market in self.run.fw.markets:
                by = {}
                for o in market.blotter:
                    by.setdefault((o.trade.strategy, o.lookup), {}).setdefault(o.trade.id, []).append(o)
                for (strategy, lookup), trades in by.items():
                    ctx = self._ctx(strategy, lookup)
                    if ctx is None:
                        continue
                    for tid, orders in trades.items():
                        bets = [ex.bets.get(str(o.bet_id)) if o.bet_id is not None else None for o in orders]
                        if tid in ctx.live_trades and bets and all(b is not None and b["complete"] for b in bets) and any(not o.complete for o in orders):
                            # observation only (see DESIGN B.3): the unchanged tree reaches this state when the order stream's
                            # message about a bet is processed before the response that carries its bet id
                            self.res.probes["c10.observed.quiescent_live_trade_with_every_bet_complete_at_the_exchange"] += 1
                    self.res.probes["c10.live.quiescent_lock_checks"] += 1
        if kind != "final" or not hasattr(self.run, "exchange"):
            return
        # only in sessions without injected API faults: with lost or garbled responses the local order state may
        # legitimately lag the exchange (that is C12's subject), the statement is about the orders' own state
        for plan in (self.run.scenario.get("faults") or {}).values():
            if set(plan) - {"match_on_place"}:
                return
        ex = self.run.exchange
        for market in self.run.fw.markets:
            by = {}
            for o in market.blotter:
                by.setdefault((o.trade.strategy, o.lookup), []).append(o)
            for (strategy, lookup), orders in by.items():
                ctx = self._ctx(strategy, lookup)
                if ctx is None:
                    continue
                exp = set()
                race = False
                for o in orders:
                    b = ex.bets.get(str(o.bet_id)) if o.bet_id is not None else None
                    if b is None:
                        if not o.complete:
                            exp.add(o.trade.id)
                        continue
                    if not b["complete"]:
                        exp.add(o.trade.id)
                        lg = [x.name for x in o.status_log]
                        if o.complete and lg[-2:] == ["CANCELLING", "EXECUTION_COMPLETE"] and abs(b.get("last_cancel", b["cancelled"]) - b["remaining"]) < 1e-9:
                            race = True  # F22: the last partial cancel took exactly what is left now
                if set(ctx.live_trades) != exp:
                    site = "live-trades-differ-from-bets-live-at-the-exchange" + (":partial-cancel-race" if race else "")
                    self.violate(self.P, "C10.live", site, strategy=strategy.name, lookup=list(lookup), live_trades=len(ctx.live_trades), expected=len(exp), orders=[(o._vid, o.status.name if o.status else None, o.order_type.ORDER_TYPE.name) for o in orders])
                self.res.probes["c10.live.exchange_truth_checks"] += 1

    def on_step_end(self):
        # live world: after every event handled by the main loop (no pool task is mid-handler: one thread runs at a time)
        for market in self.run.fw.markets:
            if not market.closed:
                self.audit(market, "handler_step_end")

    def on_exec_after(self, pkg):
        self.in_exec = max(0, self.in_exec - 1)
        ex = getattr(self.run, "exchange", None)
        if ex is not None and pkg.package_type.name == "CANCEL" and not ex.ocm and not any(getattr(getattr(e, "EVENT_TYPE", None), "name", "") == "CURRENT_ORDERS" for e in getattr(self.run.fw.handler_queue, "q", ())):
            # World B: the reply to a cancel has just been applied and no order-stream message is under way any more. An order
            # the reply handed back as EXECUTABLE although its bet is complete at the exchange (successful cancel of what was
            # left) will not hear about it again: its trade stays live and the runner stays charged
            for o in pkg._orders:
                b = ex.bets.get(str(o.bet_id)) if o.bet_id is not None else None
                rs = o.responses.cancel_responses
                if b is not None and b["complete"] and o.status is not None and o.status.name == "EXECUTABLE" and rs and getattr(rs[-1], "status", None) == "SUCCESS":
                    self.res.probes["c10.live.cancel_reply_checked_against_the_exchange"] += 1
                    self.violate(self.P, "C10.not-locked", "cancel-reply-left-the-order-executable-although-its-bet-is-complete-and-no-message-is-under-way", order=o._vid, size_cancelled=getattr(rs[-1], "size_cancelled", None), matched_at_exchange=b["matched"], status_log=[x.name for x in o.status_log][-5:])
        for o in pkg._orders:
            resp = o.responses.place_response
            if pkg.package_type.name == "PLACE" and resp is not None and getattr(resp, "status", None) == "FAILURE":
                self.res.nontrivial = True
                self.res.probes["c10.failed_placement"] += 1


def STATUS_FILTERS():
    from flumine.order.order import OrderStatus

    return [[OrderStatus.EXECUTABLE], [OrderStatus.EXECUTION_COMPLETE], [OrderStatus.PENDING, OrderStatus.CANCELLING, OrderStatus.UPDATING, OrderStatus.REPLACING], [OrderStatus.EXECUTABLE, OrderStatus.EXECUTION_COMPLETE]]


class BlotterMonitor(Monitor):
    """C15"""

    P = "C15"

    def __init__(self, run):
        super().__init__(run)
        self.shadow = {}  # market_id -> [orders in placement order]
        self.live_seen = {}  # vid -> "live" | "left"
        self.observed_complete = set()

    def on_request_after(self, kind, txn, order, a, k, res, exc):
        if kind == "PLACE" and exc is None and res:
            self.shadow.setdefault(txn.market.market_id, []).append(order)
            if order.bet_id is not None or len(order.trade.orders) > 1:
                self.res.nontrivial = True
                self.res.probes["c15.replacement_or_adopted_order"] += 1

    def adopt(self, market_id, order):
        self.shadow.setdefault(market_id, []).append(order)
        self.res.nontrivial = True

    def on_status(self, order, prev, new):
        if order.complete:
            self.observed_complete.add(order._vid)

    def audit(self, market, where):
        b = market.blotter
        sh = self.shadow.get(market.market_id, [])
        ids = lambda xs: [o._vid for o in xs]
        if ids(list(b)) != ids(sh) or len(b) != len(sh):
            self.violate(self.P, "C15.views", "orders", blotter=ids(list(b)), shadow=ids(sh), where=where)
            return
        strategies, clients, sels, trades = [], [], [], []
        owner = {id(a): a._client() for a in self.run.agents if hasattr(a, "_client")}
        if len(self.run.clients) > 1:
            self.res.probes["c15.audit_with_2plus_clients"] += 1
        for o in sh:
            s = o.trade.strategy
            # every order of a scripted strategy is placed through that strategy's client; replacements and adopted
            # orders stay with it (the by-client views are checked against this, not against the order's own attribute)
            want_client = owner.get(id(s))
            if want_client is not None and o.client is not want_client and not getattr(o, "_foreign_client", False):
                self.violate(self.P, "C15.views", "order-filed-under-another-client", order=o._vid, client=getattr(o.client, "username", None), placed_through=getattr(want_client, "username", None), replacement=bool(getattr(o, "_replacement_of", None)), where=where)
            if s not in strategies:
                strategies.append(s)
            if o.client not in clients:
                clients.append(o.client)
            key = (s, o.selection_id, o.handicap)
            if key not in sels:
                sels.append(key)
            if o.trade not in trades:
                trades.append(o.trade)
        if len(strategies) >= 2 and len(set(k[1] for k in sels)) >= 2:
            self.res.nontrivial = True
        for s in strategies:
            want = [o for o in sh if o.trade.strategy is s]
            if ids(b.strategy_orders(s)) != ids(want):
                self.violate(self.P, "C15.views", "strategy_orders", got=ids(b.strategy_orders(s)), want=ids(want), where=where)
            for status_filter in (["EXECUTABLE"], ["EXECUTION_COMPLETE"], ["PENDING", "CANCELLING", "UPDATING", "REPLACING"]):
                from flumine.order.order import OrderStatus

                fl = [OrderStatus[x] for x in status_filter]
                w2 = [o for o in want if o.status in fl]
                if ids(b.strategy_orders(s, order_status=fl)) != ids(w2):
                    self.violate(self.P, "C15.filters", "strategy_orders:order_status", got=ids(b.strategy_orders(s, order_status=fl)), want=ids(w2), filter=status_filter)
            w3 = [o for o in want if o.size_matched > 0]
            if ids(b.strategy_orders(s, matched_only=True)) != ids(w3):
                self.violate(self.P, "C15.filters", "strategy_orders:matched_only", got=ids(b.strategy_orders(s, matched_only=True)), want=ids(w3))
            for c in clients:
                w4 = [o for o in want if o.client is c]
                if ids(b.client_strategy_orders(c, s)) != ids(w4):
                    self.violate(self.P, "C15.views", "client_strategy_orders", got=ids(b.client_strategy_orders(c, s)), want=ids(w4), where=where)
                if ids(b.client_strategy_orders(c, s, matched_only=True)) != ids([o for o in w4 if o.size_matched > 0]):
                    self.violate(self.P, "C15.filters", "client_strategy_orders:matched_only")
                for fl in STATUS_FILTERS():
                    w5 = [o for o in w4 if o.status in fl]
                    if ids(b.client_strategy_orders(c, s, order_status=fl)) != ids(w5):
                        self.violate(self.P, "C15.filters", "client_strategy_orders:order_status", filter=[x.name for x in fl])
                    if ids(b.client_strategy_orders(c, s, order_status=fl, matched_only=True)) != ids([o for o in w5 if o.size_matched > 0]):
                        self.violate(self.P, "C15.filters", "client_strategy_orders:order_status+matched_only", filter=[x.name for x in fl])
            # trades of the strategy, all and by status
            wt = [t for t in trades if t.strategy is s]
            gt = b.strategy_trades(s)
            if sorted(id(t) for t in gt) != sorted(id(t) for t in wt):
                self.violate(self.P, "C15.views", "strategy_trades", got=len(gt), want=len(wt), where=where)
            for t_status in set(t.status for t in wt):
                if sorted(id(t) for t in b.strategy_trades(s, trade_status=[t_status])) != sorted(id(t) for t in wt if t.status == t_status):
                    self.violate(self.P, "C15.filters", "strategy_trades:trade_status", status=t_status.name)
        for (s, sel, hc) in sels:
            want = [o for o in sh if o.trade.strategy is s and o.selection_id == sel and o.handicap == hc]
            got = b.strategy_selection_orders(s, sel, hc)
            if ids(got) != ids(want):
                self.violate(self.P, "C15.views", "strategy_selection_orders", got=ids(got), want=ids(want), where=where)
            w3 = [o for o in want if o.size_matched > 0]
            if ids(b.strategy_selection_orders(s, sel, hc, matched_only=True)) != ids(w3):
                self.violate(self.P, "C15.filters", "strategy_selection_orders:matched_only", want=ids(w3))
            for fl in STATUS_FILTERS():
                w5 = [o for o in want if o.status in fl]
                if ids(b.strategy_selection_orders(s, sel, hc, order_status=fl)) != ids(w5):
                    self.violate(self.P, "C15.filters", "strategy_selection_orders:order_status", filter=[x.name for x in fl])
                if ids(b.strategy_selection_orders(s, sel, hc, order_status=fl, matched_only=True)) != ids([o for o in w5 if o.size_matched > 0]):
                    self.violate(self.P, "C15.filters", "strategy_selection_orders:order_status+matched_only", filter=[x.name for x in fl])
            if hc:
                self.res.probes["c15.views_on_handicap_runner"] += 1
                # the same selection under another handicap is another runner
                if b.strategy_selection_orders(s, sel, 0) and not any(k == (s, sel, 0) for k in sels):
                    self.violate(self.P, "C15.views", "strategy_selection_orders-ignores-handicap", selection=sel, handicap=hc)
        for c in clients:
            want = [o for o in sh if o.client is c]
            if ids(b.client_orders(c)) != ids(want):
                self.violate(self.P, "C15.views", "client_orders", got=ids(b.client_orders(c)), want=ids(want), where=where)
            w3 = [o for o in want if o.size_matched > 0]
            if ids(b.client_orders(c, matched_only=True)) != ids(w3):
                self.violate(self.P, "C15.filters", "client_orders:matched_only", want=ids(w3))
            for fl in STATUS_FILTERS():
                w5 = [o for o in want if o.status in fl]
                if ids(b.client_orders(c, order_status=fl)) != ids(w5):
                    self.violate(self.P, "C15.filters", "client_orders:order_status", filter=[x.name for x in fl])
                if ids(b.client_orders(c, order_status=fl, matched_only=True)) != ids([o for o in w5 if o.size_matched > 0]):
                    self.violate(self.P, "C15.filters", "client_orders:order_status+matched_only", filter=[x.name for x in fl])
        for t in trades:
            want = [o for o in sh if o.trade is t]
            if b.get_trade(t.id) is not t or ids(b._trades.get(t, [])) != ids(want) or not b.has_trade(t):
                self.violate(self.P, "C15.views", "trades", trade_orders=ids(want), where=where)
        markets = self.run.fw.markets
        for o in sh:
            if markets.get_order(market.market_id, o.id) is not o or b[o.id] is not o or o.id not in b:
                self.violate(self.P, "C15.views", "lookup-by-order-id", order=o._vid)
            if getattr(o, "_inserted_with_bet_id", None) or (o.bet_id is not None and b.get_order_bet_id(o.bet_id) is not None):
                got = markets.get_order_from_bet_id(market.market_id, o.bet_id)
                if got is not None and got is not o:
                    self.violate(self.P, "C15.views", "lookup-by-bet-id-returns-other-order", order=o._vid, bet_id=o.bet_id, got=got._vid)
        # live list
        live = list(b._live_orders)
        lids = ids(live)
        if len(set(lids)) != len(lids):
            self.violate(self.P, "C15.live", "order-twice-in-live-list", live=lids)
        for o in sh:
            inl = o._vid in lids
            state = self.live_seen.get(o._vid)
            if not o.complete and not inl:
                self.violate(self.P, "C15.live", "incomplete-order-not-in-live-list:%s" % ("never-was" if state is None else "left-earlier"), order=o._vid, status=o.status.name if o.status else None, status_log=[s.name for s in o.status_log], where=where)
            if inl:
                if state == "left":
                    self.violate(self.P, "C15.live", "order-re-entered-live-list", order=o._vid)
                self.live_seen[o._vid] = "live"
            else:
                if state == "live" and o._vid not in self.observed_complete:
                    self.violate(self.P, "C15.live", "order-left-live-list-without-having-been-complete", order=o._vid, status=o.status.name)
                if state == "live":
                    self.live_seen[o._vid] = "left"
        for o in live:
            if o not in sh:
                self.violate(self.P, "C15.live", "foreign-order-in-live-list", order=o._vid)

    def on_update_end(self, mid, j, mb):
        market = self.run.fw.markets.markets.get(mid)
        if market is not None:
            self.audit(market, "update_end")
            if mb.status == "CLOSED" and any(not o.complete for o in market.blotter):
                self.res.probes["c15.closure_with_live_orders"] += 1

    def on_main_event(self, ev):
        # World B: bets of a known strategy that the order stream has just shown and that no local order refers to
        # (placed by another instance): after this handler each must be in its market's blotter, once (own reference: the
        # references in the stream, not flumine's adoption bookkeeping)
        self.expect_adopted = []
        self.len_at_event = {mid: len(lst) for mid, lst in self.shadow.items()}
        if ev.EVENT_TYPE.name != "CURRENT_ORDERS" or getattr(ev, "exchange", None) is not None and getattr(ev.exchange, "name", "") == "BETDAQ":
            return
        hashes = {a.name_hash: a for a in self.run.agents}
        known = set(o.id for lst in self.shadow.values() for o in lst)
        for co in ev.event or []:
            for cur in getattr(co, "orders", []):
                ref = getattr(cur, "customer_order_ref", None)
                if not ref or "-" not in ref:
                    continue
                h, oid = ref.split("-", 1)
                if h in hashes and oid not in known and not any(x[1] == oid for x in self.expect_adopted):
                    self.expect_adopted.append((cur.market_id, oid, cur.bet_id, hashes[h].name))

    def on_step_end(self):
        self._settle_adoptions(final=True)
        for market in self.run.fw.markets:
            self.audit(market, "handler_step_end")

    def _settle_adoptions(self, final):
        """Moves the bets the current snapshot showed (and no local order referred to) into the own journal once they are
        in their market's blotter. final=False: called from an audit inside the handler (a pool thread that runs inside
        submit() finishes a request before the handler returns) - what is not adopted yet is only demanded at the end."""
        left = []
        for mid, oid, bet_id, sname in getattr(self, "expect_adopted", ()):
            market = self.run.fw.markets.markets.get(mid)
            order = None
            if market is not None and oid in market.blotter:
                order = market.blotter[oid]
            if order is None and not final:
                left.append((mid, oid, bet_id, sname))
            elif order is None:
                self.violate(self.P, "C15.views", "order-shown-by-the-order-stream-not-in-its-markets-blotter", market=mid, bet_id=bet_id, strategy=sname, market_registered=market is not None, market_closed=bool(market is not None and market.closed))
            else:
                # adoption happens while the snapshot is processed, i.e. before the strategies' process_orders callbacks
                # of the same handler place anything
                lst = self.shadow.setdefault(mid, [])
                at = self.len_at_event.get(mid, 0)
                lst.insert(at, order)
                self.len_at_event[mid] = at + 1
                self.res.nontrivial = True
                self.res.probes["c15.live.adopted_at_runtime" + (".into_closed_market" if market.closed else "")] += 1
        self.expect_adopted = left

    def on_exec_after(self, pkg):
        market = self.run.fw.markets.markets.get(pkg.market_id)
        if market is not None:
            self._settle_adoptions(final=False)
            self.audit(market, "exec_after")
