"""C20 - market closure processed once, with results, for the right strategies (World A part)."""
from ..backtest import Monitor


class ClosureMonitor(Monitor):
    P = "C20"

    def __init__(self, run):
        super().__init__(run)
        self.cur = None
        self.was_closed = {}
        self.n_closes = {}

    def on_close_before(self, fw, event):
        mb = event.event
        mid = mb.market_id
        market = fw.markets.markets.get(mid)
        self.cur = {
            "mid": mid,
            "pt": mb.publish_time_epoch,
            "known": market is not None,
            "market": market,
            "calls": {a.name: 0 for a in self.run.agents},
            "books": [],
            "meta": 0,
            "cleared": 0,
            "results_seen": False,
            "n_orders": len(market.blotter) if market is not None else 0,
            "mw_removed": {id(mw): mw.removed.count(mid) for mw in fw._market_middleware if hasattr(mw, "removed")},
        }
        if market is None:
            self.res.probes["c20.close_of_market_never_seen_open"] += 1

    def on_strategy_closed(self, strategy, market, mb):
        if self.cur is None:
            self.violate(self.P, "C20.callback", "closed-market-callback-outside-closure", strategy=strategy.name)
            return
        self.cur["calls"][strategy.name] = self.cur["calls"].get(strategy.name, 0) + 1
        if getattr(mb, "status", None) != "CLOSED" or mb.publish_time_epoch != self.cur["pt"] or market.market_id != self.cur["mid"]:
            self.violate(self.P, "C20.callback", "callback-not-given-the-closing-book", strategy=strategy.name, status=getattr(mb, "status", None))

    def on_log(self, event):
        if self.cur is None:
            return
        n = event.EVENT_TYPE.name
        if n == "CLEARED_ORDERS_META":
            self.cur["meta"] += 1
        elif n == "CLEARED_MARKETS":
            self.cur["cleared"] += 1

    def on_results(self, market, mb):
        if self.cur is None:
            return
        self.cur["results_seen"] = True
        mid = market.market_id
        mk = self.run.markets_by_id[mid]
        j = self.run.cur_index.get(mid)
        st = self.run.state(mid, j)
        winners = sum(1 for rs in st["r"].values() if rs["st"] == "WINNER")
        for o in market.blotter:
            rs = st["r"].get(self.run.rkey(o))
            if rs is None:
                # an order for a runner that is not part of the market: there is no result for it
                self.res.probes["c20.order_on_a_runner_outside_the_market"] += 1
                continue
            exp_dh = 1 if mk["winners"] == 0 else (winners if winners > mk["winners"] else None)
            got = (o.runner_status, o.market_type, o.each_way_divisor, o.number_of_dead_heat_winners)
            want = (rs["st"], mk["market_type"], mk.get("ew_divisor"), exp_dh)
            if got[:3] != want[:3] or (got[3] or 1) != (want[3] or 1):
                self.violate(self.P, "C20.results", "settlement-terms-not-copied", order=o._vid, got=list(got), want=list(want))
            if getattr(o.order_type, "price_ladder_definition", None) == "LINE_RANGE" and mk.get("line_result") and o.line_range_result != mk["line_result"]:
                self.violate(self.P, "C20.results", "line-result-not-copied", order=o._vid, got=o.line_range_result, want=mk["line_result"])

    def on_close_after(self, fw, event):
        c, self.cur = self.cur, None
        if c is None:
            return
        mid = c["mid"]
        sc = self.run.scenario
        pr = self.res.probes
        if not c["known"]:
            if any(c["calls"].values()) or c["meta"] or c["cleared"]:
                self.violate(self.P, "C20.callback", "closure-processed-for-unknown-market", calls=c["calls"])
            return
        self.n_closes[mid] = self.n_closes.get(mid, 0) + 1
        if self.n_closes[mid] > 1:
            self.res.nontrivial = True
            pr["c20.repeated_or_second_close"] += 1
        mi = [i for i, m in enumerate(sc["markets"]) if m["id"] == mid][0]
        subs = set()
        for ss in sc["strategies"]:
            want = 1 if mi in ss["markets"] else 0
            if want:
                subs.add(ss["name"])
            got = c["calls"].get(ss["name"], 0)
            if got != want:
                site = "callback-missing" if got < want else "callback-twice" if want else "callback-for-unsubscribed-strategy"
                self.violate(self.P, "C20.callback", site, strategy=ss["name"], got=got, want=want, market=mid)
        if len(set(tuple(ss["markets"]) for ss in sc["strategies"])) > 1:
            self.res.nontrivial = True
            pr["c20.strategies_with_different_subscriptions"] += 1
        if not c["results_seen"]:
            self.violate(self.P, "C20.results", "results-not-processed", market=mid)
        want_meta = 1 if c["n_orders"] else 0
        if c["meta"] != want_meta:
            self.violate(self.P, "C20.cleared", "cleared-orders-event-count", got=c["meta"], want=want_meta, orders=c["n_orders"])
        if c["cleared"] != len(self.run.clients):
            self.violate(self.P, "C20.cleared", "cleared-market-summary-per-client", got=c["cleared"], clients=len(self.run.clients))
        if c["n_orders"] == 0:
            pr["c20.close_with_zero_orders"] += 1
        if len(self.run.clients) > 1:
            pr["c20.two_clients"] += 1
        market = c["market"]
        if market.closed is not True or market.date_time_closed is None:
            self.violate(self.P, "C20.flags", "market-not-marked-closed", closed=market.closed)
        self.was_closed[mid] = True
        # release (simulation removes per-market state at every close)
        for a in self.run.agents:
            left = [k for k in a._invested if k[0] == mid]
            if left:
                self.violate(self.P, "C20.release", "runner-contexts-not-released", strategy=a.name, keys=len(left))
        for mw in fw._market_middleware:
            if hasattr(mw, "markets") and mid in getattr(mw, "markets", {}):
                self.violate(self.P, "C20.release", "simulated-middleware-state-not-released", market=mid)
            if hasattr(mw, "removed") and mw.removed.count(mid) != c["mw_removed"].get(id(mw), 0) + 1:
                self.violate(self.P, "C20.release", "middleware-remove_market-not-called-once", got=mw.removed.count(mid) - c["mw_removed"].get(id(mw), 0))

    def on_update_end(self, mid, j, mb):
        if mb.status == "CLOSED" or not self.was_closed.get(mid):
            return
        market = self.run.fw.markets.markets.get(mid)
        if market is None:
            return
        self.res.nontrivial = True
        self.res.probes["c20.data_after_close"] += 1
        if market.closed is not False or market.orders_cleared or market.market_cleared:
            self.violate(self.P, "C20.flags", "market-not-reopened-by-new-data", closed=market.closed, orders_cleared=market.orders_cleared, market_cleared=market.market_cleared)
        self.was_closed[mid] = False


class LiveClosureMonitor(Monitor):
    """C20 in the live loop: callbacks incl. empty-filter strategies, flags, retention (> 3600 s closed), release."""

    P = "C20"
    WORKER_MARK = "closure-worker-stand-in"

    def __init__(self, run):
        super().__init__(run)
        self.cur = None
        self.arrivals = {}
        self.closed_at = {}  # market id -> simulated time (s) of the close that is currently in force
        self.removed = []

    def on_close_before(self, fw, event):
        mb = event.event
        recorder = isinstance(mb, dict)
        mid = mb["id"] if recorder else mb.market_id
        stream_id = mb.get("_stream_id") if recorder else mb.streaming_unique_id
        market = fw.markets.markets.get(mid)
        now = self.run.now
        # markets that have been closed for more than an hour must be removed by this close event, no others
        expected = sorted(m for m, t in self.closed_at.items() if fw.markets.markets.get(m) is not None and fw.markets.markets[m].closed and now - t > 3600)
        self.cur = {"mid": mid, "pt": None if recorder else mb.publish_time_epoch, "recorder": recorder, "stream_id": stream_id, "market": market, "calls": {}, "removed": [], "expected_removed": expected, "was_closed": bool(market is not None and market.closed), "repeat": mid in self.closed_at}
        arrivals = self.arrivals.get(mid)
        after_close = arrivals.pop(0) if arrivals else (mid in self.closed_at)
        if market is not None and mid in self.closed_at and after_close:
            # a closing update for a market that is already closed is data arriving again: the market was re-opened
            # (cleared flags reset) before this closure is processed. The flags were set by the harness after the
            # previous close, standing in for the closure worker (poll_market_closure)
            if self.WORKER_MARK in market.orders_cleared or self.WORKER_MARK in market.market_cleared:
                self.violate(self.P, "C20.flags", "cleared-flags-not-reset-by-repeated-close", orders_cleared=list(market.orders_cleared), market_cleared=list(market.market_cleared))
        if market is not None and mid not in self.closed_at and (self.WORKER_MARK in market.orders_cleared or self.WORKER_MARK in market.market_cleared):
            # first closure of this market in the session: nobody has cleared it yet (the stand-in only marks the market a
            # close event was processed for), so its flags must be empty - they are per-market state
            self.violate(self.P, "C20.flags", "cleared-flags-set-on-a-market-never-cleared", market=mid, orders_cleared=list(market.orders_cleared), market_cleared=list(market.market_cleared))
        if recorder:
            self.res.probes["c20.live.recorder_mode_close"] += 1
            self.res.nontrivial = True

    def on_strategy_closed(self, strategy, market, mb):
        if self.cur is None:
            self.violate(self.P, "C20.callback", "closed-market-callback-outside-closure", strategy=strategy.name)
            return
        self.cur["calls"][strategy.name] = self.cur["calls"].get(strategy.name, 0) + 1
        if self.cur["recorder"]:
            if not isinstance(mb, dict) or mb.get("marketDefinition", {}).get("status") != "CLOSED" or mb.get("id") != self.cur["mid"]:
                self.violate(self.P, "C20.callback", "callback-not-given-the-closing-datum", strategy=strategy.name)
        elif getattr(mb, "status", None) != "CLOSED" or mb.publish_time_epoch != self.cur["pt"]:
            self.violate(self.P, "C20.callback", "callback-not-given-the-closing-book", strategy=strategy.name)

    def on_remove_market(self, fw, market, clear):
        if self.cur is not None:
            self.cur["removed"].append(market.market_id)
        else:
            self.violate(self.P, "C20.retention", "market-removed-outside-a-close-event", market=market.market_id)
        for a in self.run.agents:
            left = [k for k in a._invested if k[0] == market.market_id]
            if left:
                self.violate(self.P, "C20.release", "runner-contexts-not-released", strategy=a.name)
        if clear and market.market_id in fw.markets.markets:
            self.violate(self.P, "C20.release", "market-still-registered-after-removal", market=market.market_id)

    def on_close_after(self, fw, event):
        c, self.cur = self.cur, None
        if c is None:
            return
        mid = c["mid"]
        pr = self.res.probes
        by_name = {a.name: a for a in self.run.agents}
        for ss in self.run.scenario["strategies"]:
            got = c["calls"].get(ss["name"], 0)
            agent = by_name.get(ss["name"])
            subscribed = bool(ss.get("empty_filter")) or (agent is not None and c["stream_id"] in agent.stream_ids)
            want = 1 if subscribed else 0
            if got != want:
                site = ("empty-filter-strategy-" if ss.get("empty_filter") else "recorder-" if c["recorder"] else "") + ("callback-missing" if got < want else "callback-twice" if want else "callback-for-unsubscribed-strategy")
                self.violate(self.P, "C20.callback", site, strategy=ss["name"], got=got, want=want, market=mid)
            if ss.get("empty_filter"):
                pr["c20.live.empty_filter_strategy_close"] += 1
                self.res.nontrivial = True
        market = c["market"]
        if market is not None and mid not in c["removed"]:
            if market.closed is not True or market.date_time_closed is None:
                self.violate(self.P, "C20.flags", "market-not-marked-closed", closed=market.closed)
        # own journal: the hour of retention counts from the latest closing update of the market
        if mid not in c["removed"]:
            self.closed_at[mid] = self.run.now
            if market is not None:
                market.orders_cleared.append(self.WORKER_MARK)
                market.market_cleared.append(self.WORKER_MARK)
        if sorted(c["removed"]) != c["expected_removed"]:
            early = [m for m in c["removed"] if m not in c["expected_removed"]]
            late = [m for m in c["expected_removed"] if m not in c["removed"]]
            site = "market-removed-before-closed-for-an-hour" if early else "market-closed-for-over-an-hour-not-removed"
            self.violate(self.P, "C20.retention", site, removed=c["removed"], expected=c["expected_removed"], closed_for={m: round(self.run.now - self.closed_at[m], 1) for m in set(early + late) if m in self.closed_at})
        if c["expected_removed"]:
            pr["c20.live.retention_crossed_3600s"] += 1
            self.res.nontrivial = True
        for m in c["removed"]:
            self.closed_at.pop(m, None)
        if c["repeat"]:
            pr["c20.live.repeated_close"] += 1
            self.res.nontrivial = True

    def on_main_event(self, ev):
        # closing updates in arrival order: did the update reach the main loop after the market's previous closure had
        # been processed? (two streams may deliver the same closing line before either closure is processed)
        if ev.EVENT_TYPE.name == "RAW_DATA":
            for datum in ev.event[3]:
                if "marketDefinition" in datum and datum["marketDefinition"].get("status") == "CLOSED":
                    self.arrivals.setdefault(datum.get("id"), []).append(datum.get("id") in self.closed_at)
        if ev.EVENT_TYPE.name == "MARKET_BOOK":
            for mb in ev.event:
                if mb.status == "CLOSED":
                    self.arrivals.setdefault(mb.market_id, []).append(mb.market_id in self.closed_at)
        if ev.EVENT_TYPE.name == "RAW_DATA":
            for datum in ev.event[3]:
                if datum.get("id") in self.closed_at and not ("marketDefinition" in datum and datum["marketDefinition"]["status"] == "CLOSED"):
                    # data after close re-opens the market in recorder mode too
                    self.closed_at.pop(datum["id"], None)
        if ev.EVENT_TYPE.name == "MARKET_BOOK":
            for mb in ev.event:
                if mb.status != "CLOSED" and mb.market_id in self.closed_at:
                    m = self.run.fw.markets.markets.get(mb.market_id)
                    if m is not None and m.closed:
                        self.reopen_pending = mb.market_id

    def on_strategy_call(self, strategy, market, kind):
        mid = getattr(self, "reopen_pending", None)
        if mid is not None and market.market_id == mid:
            self.reopen_pending = None
            self.res.probes["c20.live.data_after_close"] += 1
            if market.closed is not False or market.orders_cleared or market.market_cleared:
                self.violate(self.P, "C20.flags", "market-not-reopened-by-new-data", closed=market.closed)
            self.closed_at.pop(mid, None)
