"""World C - opcode-level pre-emption of MaxTransactionCount.add_transaction (C18.atomic).
Two or three real threads call client.add_transaction(); a trace function parks the running thread after
every bytecode instruction executed inside add_transaction and a seeded tape decides who runs next. The control's
lock is replaced by a cooperative lock, so a pre-empted holder cannot dead-lock the controller."""
import sys
import threading

from . import core, backtest


class CoopLock:
    def __init__(self, world):
        self.world = world
        self.owner = None

    def acquire(self, *a, **k):
        w = self.world
        me = w.current
        while self.owner is not None and self.owner is not me:
            me.blocked = True
            w.park(me)
        me.blocked = False
        self.owner = me
        return True

    def release(self):
        self.owner = None

    def __enter__(self):
        self.acquire()
        return self

    def __exit__(self, *a):
        self.release()


class _T:
    def __init__(self, world, fn, idx):
        self.world = world
        self.fn = fn
        self.idx = idx
        self.go = threading.Semaphore(0)
        self.done = False
        self.blocked = False
        self.error = None
        self.thread = threading.Thread(target=self._run, daemon=True)

    def _run(self):
        self.go.acquire()
        sys.settrace(self.world.tracer)
        try:
            self.fn()
        except BaseException:
            self.error = sys.exc_info()
        finally:
            sys.settrace(None)
            self.done = True
            self.world.ctrl.release()


class OpcodeWorld:
    def __init__(self, scenario):
        self.scenario = scenario
        self.ctrl = threading.Semaphore(0)
        self.current = None
        self.switches = 0
        self.points = 0
        self.target_code = None
        self.warming = False

    def tracer(self, frame, event, arg):
        if frame.f_code is self.target_code:
            frame.f_trace_opcodes = True
            return self.local_trace
        return None

    def local_trace(self, frame, event, arg):
        if event == "opcode" and not self.warming:
            self.points += 1
            self.park(self.current)
        return self.local_trace

    def park(self, t):
        self.ctrl.release()
        t.go.acquire()

    def run(self):
        F = backtest._load()
        from flumine.controls.clientcontrols import MaxTransactionCount

        res = core.Result()
        sc = self.scenario

        class Client:
            transaction_limit = None
            username = "c"
            info = {}

        client = Client()
        ctl = MaxTransactionCount(None, client)
        client.trading_controls = [ctl]
        ctl._lock = CoopLock(self)
        self.target_code = MaxTransactionCount.add_transaction.__code__
        if hasattr(self.target_code, "co_code") and hasattr(MaxTransactionCount.add_transaction, "__wrapped__"):
            self.target_code = MaxTransactionCount.add_transaction.__wrapped__.__code__
        # the class-level wrapper installed by backtest.py wraps the original function: trace the original
        fn = MaxTransactionCount.add_transaction
        orig = None
        if fn.__closure__:
            for c in fn.__closure__:
                try:
                    v = c.cell_contents
                except ValueError:
                    continue
                if callable(v) and getattr(v, "__name__", "") == "add_transaction":
                    orig = v
        if orig is not None:
            self.target_code = orig.__code__
        # warm-up under the tracer: 3.12 instruments a code object for opcode events lazily
        warm = MaxTransactionCount(None, client)
        warm._lock = threading.Lock()
        self.warming = True
        sys.settrace(self.tracer)
        try:
            warm.add_transaction(0)
            warm.add_transaction(0, failed=True)
        finally:
            sys.settrace(None)
            self.warming = False
        calls = sc["calls"]
        threads = []
        for i, (count, failed) in enumerate(calls):
            t = _T(self, (lambda c=count, f=failed: ctl.add_transaction(c, failed=f)), i)
            threads.append(t)
            t.thread.start()
        tape = list(sc["tape"])
        pos = 0
        last = None
        steps = 0
        while True:
            runnable = [t for t in threads if not t.done and not (t.blocked and ctl._lock.owner is not None and ctl._lock.owner is not t)]
            if not runnable:
                if all(t.done for t in threads):
                    break
                res.harness_error = "opcode world: dead-lock"
                break
            k = tape[pos] if pos < len(tape) else 0
            pos += 1
            t = runnable[k % len(runnable)]
            if last is not None and t is not last:
                self.switches += 1
            last = t
            self.current = t
            t.go.release()
            self.ctrl.acquire()
            steps += 1
            if steps > 5000:
                res.harness_error = "opcode world: step cap"
                break
        for t in threads:
            if t.error and not res.harness_error:
                res.harness_error = "opcode world thread error: %r" % (t.error[1],)
        want_ok = sum(c for c, f in calls if not f)
        want_failed = sum(c for c, f in calls if f)
        got = (ctl.transaction_count, ctl.current_transaction_count, ctl.failed_transaction_count, ctl.current_failed_transaction_count)
        want = (want_ok, want_ok, want_failed, want_failed)
        res.probes["c18.opcode.preemption_points"] += self.points
        res.probes["c18.opcode.switches"] += self.switches
        res.probes["c18.opcode.schedules"] += 1
        res.steps = steps
        if self.switches >= 2:
            res.nontrivial = True
        if got != want:
            res.violate("C18", "C18.atomic", "lost-update-in-add_transaction", counters=list(got), expected=list(want), calls=calls, switches=self.switches)
        res.digest = core.digest((got, self.points, self.switches))
        return res


def run_scenario(scenario):
    return OpcodeWorld(scenario).run()
