"""C10 - Trade and runner accounting follows the real state of the orders."""
from .. import backtest
from ..oracles.ledger import LedgerMonitor
from ..oracles.lifecycle import AccountingMonitor
from . import common, lifecycle_common

ID = "C10"
LEVEL = "exploration"
TECHNIQUE = "deterministic simulation; runner-context live trades / trade counts / trade completion recounted from the blotter orders at the end of every update, and the configured limits re-checked at every accepted placement, over whole simulated backtests"
BUDGET = {"quick": {"runs": 10000, "wall": 45}, "thorough": {"runs": 500000, "wall": 900}}
RULE = "one evaluation = one seeded backtest: single and multi-order trades, trades as context managers, replacements, fills/cancels/lapses/voids/failed placements, max_trade_count in {1,2,5,1e6}, max_live_trade_count in {1,2,3}, multi_order_trades, reset/place_reset seconds in {0, small, large}; non-trivial = a multi-order trade, a failed placement or a refusal by validate_order occurred; distinct = distinct scenario digests"
ASSUMPTIONS = [
    "75% World A backtests (simulated exchange), 25% World B live sessions against the exchange double (legitimate replies and injected API faults, no restarts)",
    "observation points: every status change, every request, every package and its execution, end of every update",
    "a placement refused with a cool-down as the stated reason is judged against the harness clock read at the instants flumine stamps the runner (RunnerContext.place / reset): refused although the cool-down has elapsed is a violation (C10.not-locked)",
    "half of the live sessions set place_reset_seconds (0.5 s .. 600 s) on their placements and receive 1-3 bets of another instance of the strategy, placed 0 .. 4000 s earlier, through the order stream; 35% of the live sessions let a submitted request run (up to the processing of its reply) before submit() returns, 40% report each bet in an order-stream message of its own",
]
from . import C11 as _c11

COMPONENTS = dict(common.COMPONENTS_A, world_B=_c11.COMPONENTS)
MONITORS = [LedgerMonitor, AccountingMonitor]


def generate(rng, i, tier):
    if rng.random() < 0.06:
        from .. import livegen

        return livegen.gen_cancel_race(rng)
    if rng.random() < 0.25:
        from .. import livegen

        sc = livegen.gen_live(rng, "C12" if rng.random() < 0.5 else "C11")
        sc.pop("crash_at", None)
        sc.pop("foreign_bets", None)
        import random

        side = random.Random("c10-live|%d" % rng.getrandbits(32))
        if side.random() < 0.5:
            # placement cool-downs in live sessions, and bets of another instance of the strategy (placed a while ago) that
            # the order stream shows part-way: the cool-down after an own placement must still hold
            prs = side.choice([0.5, 5.0, 30.0, 600.0])

            def mark(acts):
                for a in acts:
                    if a.get("op") == "txn":
                        mark(a["acts"])
                    elif a.get("op") == "place":
                        a["prs"] = prs

            for m in sc["markets"]:
                for u in m["updates"]:
                    for key in ("acts", "oacts"):
                        for acts in (u.get(key) or {}).values():
                            mark(acts)
            for _ in range(side.choice([1, 2, 3])):
                sc["exchange_events"].insert(side.randint(0, len(sc["exchange_events"])), {"type": "sibling_bet", "market": side.randrange(len(sc["markets"])), "strategy": side.randrange(len(sc["strategies"])), "runner": side.randrange(3), "side": side.choice(["BACK", "LAY"]), "age": side.choice([0, 0.4, 45, 600, 4000])})
        return sc
    return lifecycle_common.scenario(rng, ID)


def execute(scenario):
    if scenario.get("world") == "B":
        from .. import live

        return live.run_scenario(scenario, [AccountingMonitor], owner=ID)
    return backtest.run_scenario(scenario, MONITORS, owner=ID)


def sample_view(scenario):  # noqa: F811
    if scenario.get("world") == "B":
        from . import C11

        return C11.sample_view(scenario)
    return common.sample_view(scenario)


def shrink(scenario, test, deadline):  # noqa: F811
    if scenario.get("world") == "B":
        from . import C11

        return C11.shrink_live(scenario, test, deadline)
    return common.shrink(scenario, test, deadline)
