"""C10 - Trade and runner accounting follows the real state of the orders."""
from .. import backtest
from ..oracles.ledger import LedgerMonitor
from ..oracles.lifecycle import AccountingMonitor
from . import common, lifecycle_common
from .common import sample_view, shrink  # noqa

ID = "C10"
LEVEL = "exploration"
TECHNIQUE = "deterministic simulation; runner-context live trades / trade counts / trade completion recounted from the blotter orders at the end of every update, and the configured limits re-checked at every accepted placement, over whole simulated backtests"
BUDGET = {"quick": {"runs": 10000, "wall": 45}, "thorough": {"runs": 500000, "wall": 900}}
RULE = "one evaluation = one seeded backtest: single and multi-order trades, trades as context managers, replacements, fills/cancels/lapses/voids/failed placements, max_trade_count in {1,2,5,1e6}, max_live_trade_count in {1,2,3}, multi_order_trades, reset/place_reset seconds in {0, small, large}; non-trivial = a multi-order trade, a failed placement or a refusal by validate_order occurred; distinct = distinct scenario digests"
ASSUMPTIONS = [
    "World A (simulated exchange) only in this version of the check; the live-exchange double facet is covered by the World B checks (C11/C12) where noted in DESIGN.md",
    "observation points: every status change, every request, every package and its execution, end of every update",
]
COMPONENTS = common.COMPONENTS_A
MONITORS = [LedgerMonitor, AccountingMonitor]


def generate(rng, i, tier):
    return lifecycle_common.scenario(rng, ID)


def execute(scenario):
    return backtest.run_scenario(scenario, MONITORS, owner=ID)
