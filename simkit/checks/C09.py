"""C09 - Runner removal voids bets on the runner and reduces the others once."""
from .. import backtest
from ..oracles.ledger import LedgerMonitor
from ..oracles.removal import RemovalMonitor
from . import common
from .common import sample_view, shrink  # noqa

ID = "C09"
LEVEL = "exploration"
TECHNIQUE = "deterministic simulation of whole backtests; before/after diff of every order around the update that carries a runner removal, against the exchange's reduction formulas, on every later update and across markets of one run"
BUDGET = {"quick": {"runs": 10000, "wall": 45}, "thorough": {"runs": 500000, "wall": 900}}
RULE = (
    "one evaluation = one seeded backtest with 1-3 markets (WIN/PLACE/OTHER_PLACE/EACH_WAY, sequential or event-grouped) containing runner "
    "removals with factors None/0/1/2.49/2.5/2.51/10/33.3/60, the same (selection, factor) removed in several markets, orders in every state "
    "at the removal instant (pending, resting, partly filled, partly cancelled, in-flight cancel/replace, complete, SP orders), markets that close and receive data again; non-trivial = a "
    "removal hit a market holding an order on the removed runner and a matched order elsewhere; distinct = distinct scenario digests"
)
ASSUMPTIONS = [
    "the reduction formulas are the ones stated by the property (price x (1 - f/100) rounded to 2dp, floor 1.01, threshold 2.5; MOC LAY liability scaling for WIN and PLACE/OTHER_PLACE)",
    "a removal is recognised from the generator's own data (first update whose runner status is REMOVED), independently of the middleware's bookkeeping",
]
COMPONENTS = common.COMPONENTS_A
MONITORS = [LedgerMonitor, RemovalMonitor]
FACTORS = [None, 0.0, 1.0, 2.49, 2.5, 2.51, 10.0, 33.3, 60.0]


def generate(rng, i, tier):
    n_markets = rng.choice([1, 1, 2, 2, 3])
    grouped = n_markets > 1 and rng.random() < 0.4
    plan = [(rng.randrange(3), rng.choice(FACTORS))]
    if rng.random() < 0.3:
        plan.append((rng.randrange(3), rng.choice(FACTORS)))
    knobs = {
        "removal_plan": plan,
        "n_runners": (3, 4),
        "p_suspend": rng.choice([0.0, 0.2]),
        "p_inplay": rng.choice([0.2, 0.7]),
        "bsp": True if rng.random() < 0.7 else None,
        "n_updates": (6, rng.choice([14, 25, 40])),
        "p_trade": 0.6,
        # closure, repeated closure and data after closure: a removal must not be applied again when the market re-opens
        "p_close": rng.choice([0.5, 1.0]),
        "p_repeat_close": rng.choice([0.0, 0.3]),
        "p_reopen_after_close": rng.choice([0.0, 0.5]),
    }
    mix = {"p_act": rng.choice([0.4, 0.7]), "p_fok": 0.05, "p_sp": rng.choice([0.1, 0.35]), "where": ("through", "at", "behind", "behind"), "max_size": 8.0, "p_partial_cancel": 0.7, "w_cancel": 2}
    sc = common.base_scenario(
        rng,
        n_markets=n_markets,
        market_knobs=knobs,
        strategies=rng.choice([1, 2]),
        mix=mix,
        strat_kw={"max_live_trade_count": 30, "max_order_exposure": 500, "max_selection_exposure": 5000, "event_processing": grouped},
        clients=[{"bpe": True}],
        same_event=grouped,
        t0=common.marketgen.T0_MS + rng.randint(0, 100000) if grouped else None,
    )
    return sc


def execute(scenario):
    return backtest.run_scenario(scenario, MONITORS, owner=ID)
