"""C05 - Fills never breach the order's limit; fill-or-kill is all-or-nothing."""
from .. import backtest
from ..oracles.ledger import LedgerMonitor
from ..oracles.matching import PackageTracker, FillMonitor
from . import common
from .common import sample_view, shrink  # noqa

ID = "C05"
LEVEL = "exploration"
TECHNIQUE = "deterministic simulation of whole backtests; every new fill fragment compared, when it appears, with the order's limit and the generator's own book of the update the placement was executed against"
BUDGET = {"quick": {"runs": 12000, "wall": 45}, "thorough": {"runs": 600000, "wall": 900}}
RULE = (
    "one evaluation = one seeded backtest (generated book with 0-6 levels per side, gaps, empty sides; limit orders through/at/behind "
    "the best price, both sides, FILL_OR_KILL with every min-fill class, best-price execution on/off, later trades); non-trivial = a "
    "placement crossed a book with >= 2 levels or was fill-or-kill; distinct = distinct scenario digests"
)
ASSUMPTIONS = [
    "the book an order is matched against is the generator's own state of the last update delivered before execution (C07 checks that this is the right update)",
    "level availability is per order (the engine does not deplete the book between orders, which the property does not demand)",
    "simulated_full_match runs are outside the level clause, as the property states",
]
COMPONENTS = common.COMPONENTS_A
MONITORS = [LedgerMonitor, PackageTracker, FillMonitor]


def generate(rng, i, tier):
    knobs = {"p_removal": rng.choice([0.0, 0.2]), "p_suspend": rng.choice([0.0, 0.15]), "p_inplay": rng.choice([0.0, 0.4]), "n_updates": (5, rng.choice([12, 25, 40])), "p_trade": rng.choice([0.3, 0.6])}
    mix = {
        "p_act": rng.choice([0.4, 0.7]),
        "p_fok": rng.choice([0.1, 0.5, 0.8]),
        "p_sp": 0.0,
        "w_cancel": 0.5,
        "w_update": 0.2,
        "w_replace": rng.choice([0.5, 2]),
        "w_txn": 0.3,
        "where": rng.choice([("through", "through", "at", "behind"), ("through", "at", "at", "behind", "far")]),
        "max_size": rng.choice([4.0, 20.0, 60.0]),
        "p_mv": rng.choice([0.0, 0.1]),
    }
    clients = [{"bpe": rng.random() < 0.6, "full_match": rng.random() < 0.08}]
    strat_kw = {"max_live_trade_count": 50, "max_order_exposure": 5000, "max_selection_exposure": 50000}
    return common.base_scenario(rng, n_markets=1, market_knobs=knobs, strategies=rng.choice([1, 1, 2]), mix=mix, strat_kw=strat_kw, clients=clients)


def execute(scenario):
    return backtest.run_scenario(scenario, MONITORS, owner=ID)
