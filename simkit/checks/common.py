"""Shared pieces of the World-A checks: scenario assembly, sample views, shrink."""
from .. import marketgen, agentgen, shrink as _shrink

COMPONENTS_A = {
    "real": [
        "flumine.FlumineSimulation (run loop, pending-package latency queue, closure)",
        "flumine.streams (Streams, HistoricalStream, HistoricListener, FlumineMarketStream) over betfairlightweight's market cache/resources",
        "flumine.markets (Market, Markets, Blotter, SimulatedMiddleware, RunnerAnalytics)",
        "flumine.execution (Transaction, SimulatedExecution), flumine.simulation.SimulatedOrder",
        "flumine.order (orders, trades, order packages), flumine.controls (all default trading/client controls)",
        "flumine.strategy (BaseStrategy, RunnerContext), flumine.clients.SimulatedClient, SimulatedDateTime clock patch",
    ],
    "stub": [
        "file system: smart_open.open -> in-memory generated stream files",
        "uuid1/uuid4 -> run-local counters",
        "logging control -> synchronous recorder",
        "strategies -> scripted agents generated from the seed",
    ],
}


def latencies(rng, dyadic=False):
    if dyadic:
        ch = [0.0, 0.125, 0.25, 0.5, 1.0]
        return {k: rng.choice(ch) for k in ("place_latency", "cancel_latency", "update_latency", "replace_latency")}
    if rng.random() < 0.3:
        return {}
    return {
        "place_latency": rng.choice([0.0, 0.001, 0.05, 0.12, 0.5, 2.0]),
        "cancel_latency": rng.choice([0.0, 0.001, 0.05, 0.17, 0.5, 2.0]),
        "update_latency": rng.choice([0.0, 0.001, 0.05, 0.15, 0.5, 2.0]),
        "replace_latency": rng.choice([0.0, 0.001, 0.05, 0.28, 0.5, 2.0]),
    }


def base_scenario(rng, n_markets=1, market_knobs=None, strategies=1, mix=None, strat_kw=None, clients=None, same_event=False, t0=None):
    sc = {"world": "A", "cfg": latencies(rng, (market_knobs or {}).get("dyadic", False)), "clients": clients or [{}], "markets": [], "strategies": []}
    ev = "30000001" if same_event else None
    for i in range(n_markets):
        sc["markets"].append(marketgen.gen_market(rng, i, market_knobs, t0=t0, event_id=ev))
    for s in range(strategies):
        st = {"name": "S%d" % s, "markets": list(range(n_markets)), "client": 0}
        st.update(strat_kw or {})
        sc["strategies"].append(st)
        agentgen.add_script(rng, sc, st, mix)
    _tz(sc)
    return sc


def _tz(sc):
    from .. import rt

    if not sc["markets"]:
        return  # markets are added by the caller, who calls _tz afterwards
    tz = rt.tz_for("%s|%d" % (sc["markets"][0]["updates"][0]["pt"], len(sc["markets"][0]["updates"])))
    if tz:
        sc["tz"] = tz


def sample_view(sc):
    """Compact, human-readable rendering of a scenario for the evidence file."""
    out = {"cfg": sc.get("cfg"), "clients": sc.get("clients"), "strategies": [{k: v for k, v in s.items()} for s in sc["strategies"]], "markets": []}
    for m in sc["markets"]:
        mv = {"id": m["id"], "type": m["market_type"], "winners": m["winners"], "bsp": m["bsp"], "n_updates": len(m["updates"]), "timeline": []}
        prev = None
        for j, u in enumerate(m["updates"]):
            key = (u["st"], u["ip"], u["ver"], u["bd"], u["bspr"], tuple(r["st"] for r in u["r"].values()))
            entry = {}
            if key != prev:
                entry["md"] = {"st": u["st"], "ip": u["ip"], "ver": u["ver"], "bd": u["bd"], "bspr": u["bspr"], "runners": {s: r["st"] for s, r in u["r"].items()}}
                prev = key
            for k in ("acts", "oacts"):
                if u.get(k):
                    entry[k] = u[k]
            if entry:
                entry["j"] = j
                entry["pt"] = u["pt"]
                mv["timeline"].append(entry)
        out["markets"].append(mv)
    return out


def shrink(scenario, test, deadline):
    return _shrink.shrink_backtest(scenario, test, deadline)
