"""C06 - Passive liquidity is never double counted; queue position is honoured."""
from .. import backtest
from ..oracles.ledger import LedgerMonitor
from ..oracles.matching import PackageTracker, FillMonitor, PassiveMonitor
from . import common
from .common import sample_view, shrink  # noqa

ID = "C06"
LEVEL = "exploration"
TECHNIQUE = "deterministic simulation of whole backtests; per-update passive fills compared with an independent ledger of cumulative traded volume built from the generated stream (lone-order equality, subset bounds, price priority)"
BUDGET = {"quick": {"runs": 10000, "wall": 45}, "thorough": {"runs": 500000, "wall": 900}}
RULE = (
    "one evaluation = one seeded backtest with 1-3 strategies resting 1-4 limit orders per runner at equal/different prices and sides, "
    "strategy isolation on/off, traded-ladder sequences with repeats, several levels per update and shrinking cumulative values; "
    "non-trivial = two or more resting orders of one pool saw eligible volume in one update, or a lone order had queue ahead > 0; "
    "distinct = distinct scenario digests"
)
ASSUMPTIONS = [
    "granularity: volume traded in the interval that contains the arrival instant counts as traded after arrival",
    "rounding: fragments are rounded to 2dp, 0.005 per (update, price level) event is tolerated",
    "the lone-order equality is asserted only for orders that were alone in their pool on the runner for their whole life and were not cancelled/voided in between",
    "simulation_available_prices (documented double counting mode) is off; best_price_execution is off in a quarter of the scenarios; 15% of the scenarios add a second market of the same event (same runners and publish times, event_processing)",
]
COMPONENTS = common.COMPONENTS_A
MONITORS = [LedgerMonitor, PackageTracker, FillMonitor, PassiveMonitor]


def generate(rng, i, tier):
    knobs = {"p_removal": rng.choice([0.0, 0.1]), "p_suspend": rng.choice([0.0, 0.1]), "p_inplay": rng.choice([0.0, 0.3]), "n_updates": (8, rng.choice([20, 40, 60])), "p_trade": rng.choice([0.6, 0.8]), "n_runners": (1, 3)}
    lone = rng.random() < 0.35
    mix = {
        "p_act": 0.15 if lone else rng.choice([0.4, 0.7]),
        "p_fok": 0.0,
        "p_sp": 0.0,
        "w_cancel": 0.0 if lone else rng.choice([0.2, 1]),
        "w_update": 0.0 if lone else 0.2,
        "w_replace": 0.0 if lone else rng.choice([0.2, 1]),
        "w_txn": 0.2,
        "where": ("behind", "behind", "at", "behind", "through"),
        "max_size": rng.choice([4.0, 20.0, 80.0]),
        "p_mv": 0.0,
        "persistence": ("PERSIST", "LAPSE"),
    }
    sc = common.base_scenario(
        rng,
        n_markets=1,
        market_knobs=knobs,
        strategies=1 if lone else rng.choice([1, 2, 3]),
        mix=mix,
        strat_kw={"max_live_trade_count": 50, "max_order_exposure": 5000, "max_selection_exposure": 50000},
        clients=[{"bpe": True}],
    )
    sc["cfg"]["isolation"] = rng.random() < 0.7
    import random

    side0 = random.Random("c06-two|%d" % rng.getrandbits(32))
    if side0.random() < 0.15:
        # the same race as two markets (e.g. WIN and PLACE: same selection ids, recorded from one connection so that the
        # publish times coincide), processed as one event group: fills of one market must come from ITS traded volume
        m2 = common.marketgen.gen_market(side0, 1, dict(knobs, n_runners=(len(sc["markets"][0]["runners"]), len(sc["markets"][0]["runners"]))), t0=sc["markets"][0]["updates"][0]["pt"], event_id="30000001")
        m1 = sc["markets"][0]
        m1["event_id"] = "30000001"
        if m2["runners"] == m1["runners"]:
            for ua, ub in zip(m1["updates"], m2["updates"]):
                ub["pt"] = ua["pt"]
            if len(m2["updates"]) > len(m1["updates"]):
                base = m1["updates"][-1]["pt"]
                for k2, u in enumerate(m2["updates"][len(m1["updates"]):]):
                    u["pt"] = base + 1000 * (k2 + 1)
            sc["markets"].append(m2)
            for st in sc["strategies"]:
                st["markets"] = [0, 1]
                st["event_processing"] = True
                common.agentgen.add_script(side0, sc, dict(st, markets=[1]), mix)
            sc["two_markets_one_event"] = True

    side = random.Random("c06-cfg|%d" % rng.getrandbits(32))
    if side.random() < 0.25:
        sc["clients"][0]["bpe"] = False  # best_price_execution off: orders priced through the book lapse, resting orders queue as always
    return sc


def execute(scenario):
    return backtest.run_scenario(scenario, MONITORS, owner=ID)
