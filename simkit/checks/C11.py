"""C11 - Order-stream reconciliation converges on the exchange's view."""
import copy
import time

from .. import live, livegen, core
from ..oracles.reconcile import ReconcileMonitor
from ..oracles.lifecycle import LifecycleMonitor

ID = "C11"
LEVEL = "exploration"
TECHNIQUE = "deterministic simulation of the live framework: real Flumine.run() main loop, real BetfairExecution and betfairlightweight endpoint/resources/order-stream cache under a seeded scheduler that interleaves {request applied by the exchange double, response applied by the pool task, order-stream delta, duplicate snapshot, idle tick, exchange-side fill/lapse} and crashes/restarts the framework; after the drain and a final full image every local order is compared with the exchange double's bet table"
BUDGET = {"quick": {"runs": 6000, "wall": 45}, "thorough": {"runs": 300000, "wall": 900}}
RULE = (
    "one evaluation = one seeded live session: 1-2 markets, 1-2 strategies (+ bets of an unknown strategy), sync and async placement, cancels/updates/replaces in packages of 1-3, "
    "exchange-side partial/full fills and lapses, duplicated snapshots, pool sizes 32/2/1, 0-2 crash/restart points with images with/without completed bets; non-trivial = an order-stream "
    "snapshot was processed between the exchange applying a request and its response, or a restart happened with a live bet; distinct = distinct scenario digests"
)
ASSUMPTIONS = [
    "exchange double and order-stream message format are models written for this harness (field names taken from betfairlightweight's cache code)",
    "convergence is demanded after faults stop: all pool tasks drained, all messages delivered and one fresh full order image processed",
    "interleaving granularity: the simulator's park points (request leaves / exchange applied / response returns / back-off sleep / queue), one thread runs at a time",
    "all API replies are the ones the bet table justifies (injected API faults belong to C12)",
]
COMPONENTS = {
    "real": [
        "flumine.Flumine.run() dispatch loop, BaseFlumine._process_* handlers, process_current_orders / create_order_from_current",
        "flumine BetfairExecution incl. _execution_helper, retry/back-off, session handling; Transaction, controls, orders, trades, blotter, runner contexts",
        "betfairlightweight APIClient Betting endpoint (JSON-RPC encode/decode, error mapping, resources), StreamListener + order cache + market cache",
    ],
    "stub": [
        "network: requests.Session.post -> exchange double (bet table + JSON-RPC handlers)",
        "thread pool -> baton-passing real threads released one at a time by the seeded scheduler",
        "handler queue -> scheduler; stream sockets/output threads -> scheduler steps; background workers not run; login/account calls stubbed",
        "clock (datetime.utcnow, time.time, time.sleep) -> simulator clock; uuid -> counters",
    ],
}
MONITORS = [ReconcileMonitor]


def generate(rng, i, tier):
    if rng.random() < 0.06:
        return livegen.gen_cancel_race(rng)
    return livegen.gen_live(rng, "C11")


def execute(scenario):
    return live.run_scenario(scenario, MONITORS, owner=ID)


def sample_view(sc):
    from .common import sample_view as sv

    v = sv({"cfg": sc["cfg"], "clients": sc["clients"], "strategies": sc["strategies"], "markets": sc["markets"]})
    for k in ("tape", "faults", "exchange_events", "crash_at", "duplicates", "idle_ticks", "image_with_complete", "foreign_bets", "missing_after_restart"):
        if sc.get(k) is not None:
            v[k] = sc[k] if k != "tape" else sc[k][:40]
    return v


def shrink(scenario, test, deadline):
    return shrink_live(scenario, test, deadline)


def shrink_live(scenario, test, deadline):
    sc = scenario
    if not test(sc):
        return scenario

    def attempt(c):
        nonlocal sc
        if time.time() < deadline and test(c):
            sc = c
            return True
        return False

    # drop crash points, exchange events, faults, strategies, markets
    for key in ("crash_at", "exchange_events"):
        lst = list(sc.get(key) or [])
        keep = core.ddmin(lst, lambda sub: test(dict(sc, **{key: sub})), deadline)
        sc = dict(sc, **{key: keep})
    fk = sorted((sc.get("faults") or {}).keys(), key=int)
    keepk = core.ddmin(fk, lambda sub: test(dict(sc, faults={k: sc["faults"][k] for k in sub})), deadline)
    sc = dict(sc, faults={k: sc["faults"][k] for k in keepk})
    for key in ("duplicates", "idle_ticks", "foreign_bets", "missing_after_restart"):
        if sc.get(key):
            c = dict(sc)
            c[key] = None
            attempt(c)
    if len(sc["markets"]) > 1:
        c = copy.deepcopy(sc)
        c["markets"] = c["markets"][:1]
        for s in c["strategies"]:
            s["markets"] = [0]
        attempt(c)
    while len(sc["strategies"]) > 1:
        c = copy.deepcopy(sc)
        c["strategies"].pop()
        if not attempt(c):
            break
    # actions
    from .. import shrink as sh

    base = sh._strip_actions(sc)
    sites = sh._action_sites(sc)
    src = sc
    kept = core.ddmin(sites, lambda sub: test(sh._with_actions(src, base, sub)), deadline)
    sc = sh._with_actions(src, base, kept)
    # tape: shorten, then zero entries
    tape = list(sc["tape"])
    lo = 0
    while len(tape) > 4 and time.time() < deadline:
        c = dict(sc, tape=tape[: len(tape) // 2])
        if test(c):
            tape = c["tape"]
            sc = c
        else:
            break
    for i in range(len(tape)):
        if time.time() >= deadline:
            break
        if tape[i] != 0:
            t2 = list(tape)
            t2[i] = 0
            c = dict(sc, tape=t2)
            if test(c):
                tape = t2
                sc = c
    return sc
