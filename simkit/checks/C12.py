"""C12 - Exchange call faults never strand an order or lose a transaction count."""
from .. import live, livegen, backtest
from ..oracles.reconcile import FaultMonitor
from ..oracles.ledger import LedgerMonitor
from ..oracles.transactions import TransactionMonitor
from . import C11, common, lifecycle_common

ID = "C12"
LEVEL = "fault_enumeration"
TECHNIQUE = "deterministic simulation with fault injection at the exchange-call seam: per-instruction outcomes (SUCCESS / FAILURE x codes / TIMEOUT), shuffled or missing cancel reports, transport and API errors on any attempt (connection error before/after the exchange applied the request, HTTP 503, invalid JSON, APING error) and orders completing between request and response are injected into the real BetfairExecution under a seeded scheduler (World B) and as market states at execution time into the real SimulatedExecution (World A); order progress, retry budget, transaction counts and report attribution are checked after the drain"
BUDGET = {"quick": {"runs": 7000, "wall": 45}, "thorough": {"runs": 350000, "wall": 900}}
RULE = (
    "one evaluation = one seeded session; 40% systematic cells of the enumerated fault space, 25% sampled live sessions with a fault plan over the first 30 API calls (45% of the calls carry a fault: per-instruction report assignment over {SUCCESS, TIMEOUT, FAILURE x 5 codes}, "
    "transport fault kind x attempt, shuffled/omitted cancel reports, runs of faults that exhaust the retry budget), packages of 1-3 orders of each kind, exchange-side fills/lapses between request and response; "
    "35% backtests where packages are executed against suspended/closed markets, removed runners, version mismatches and orders that completed inside the latency window; non-trivial = a non-SUCCESS outcome or a "
    "transport fault was injected (live) / a response was applied after the order completed (simulated); distinct = distinct scenario digests"
)
ASSUMPTIONS = [
    "40% of the evaluations walk the enumerated fault space cell by cell (index i -> cell i mod 9408: kind x package of 1-2 orders x assignment of {SUCCESS, TIMEOUT, FAILURE x 5 codes} x transport fault kind x 1..4 faulted attempts x order completed between request and response), each under one seeded schedule; the thorough tier covers every cell several times, the quick tier a prefix (40% of its evaluations); the rest is sampled (packages of 3, mixed sessions, World A)",
    "retry budget: 1 call + 3 retries (BaseOrderPackage._max_retries), counted per package reference AND per order reference (placement instructions carrying one customerOrderRef)",
    "8% of the evaluations are a directed family: asynchronous PLACE package of 2-3 bets, 1-7 consecutive transport faults, the order stream reporting each bet in a message of its own (partial acknowledgement between attempts)",
    "a placement is 'still possibly accepted' (PENDING allowed) when every attempt ended with a transport fault after the request had left, a TIMEOUT report, or it was placed async",
    "Betdaq execution is outside, as the property states",
]
COMPONENTS = dict(C11.COMPONENTS, **{"world_A": common.COMPONENTS_A})
LIVE_MONITORS = [FaultMonitor]


class SimProgressMonitor(backtest.Monitor):
    """C12 on the simulated execution: after every handler each order of the package can progress."""

    P = "C12"

    def on_exec_after(self, pkg):
        for o in pkg._orders:
            st = o.status.name if o.status else None
            if st in ("CANCELLING", "UPDATING", "REPLACING", "PENDING"):
                self.violate(self.P, "C12.progress", "sim-order-left-%s:%s" % (st.lower(), pkg.package_type.name), order=o._vid, status_log=[s.name for s in o.status_log])
            if o.trade.status.name == "PENDING":
                self.violate(self.P, "C12.progress", "sim-trade-left-pending:%s" % pkg.package_type.name, order=o._vid)
            lg = [s.name for s in o.status_log]
            if len(lg) >= 2 and lg[-1] == "EXECUTION_COMPLETE" and "EXECUTION_COMPLETE" in lg[:-1]:
                self.res.nontrivial = True
                self.res.probes["c12.sim.response_after_completion"] += 1
        if len(pkg._orders) >= 2:
            self.res.probes["c12.sim.package_of_2plus"] += 1


class C12Transactions(TransactionMonitor):
    P = "C12"

    def violate(self, prop, clause, site, **details):
        if clause in ("C18.total",):
            super().violate("C12", "C12.counts", "sim-" + site, **details)


SIM_MONITORS = [LedgerMonitor, SimProgressMonitor, C12Transactions]


def directed_sim_package(rng):
    """World A: a transaction sends 2-3 requests of one kind; inside the (long) latency the FIRST order of the package
    is completed by traded volume, so the package is executed with a completed order in front."""
    from .. import marketgen
    from ..marketgen import TICKS

    kind = rng.choice(["cancel", "update", "replace"])
    n = rng.choice([2, 3])
    knobs = {"n_updates": (10, 12), "p_removal": 0.0, "p_suspend": 0.0, "p_inplay": 0.0, "p_close": rng.choice([0.0, 1.0]), "n_runners": (2, 3), "dyadic": True, "p_trade": 0.0}
    m = marketgen.gen_market(rng, 0, knobs)
    sel = m["runners"][0]
    # a quiet, fixed book on the runner so that the resting orders are only touched by the volume we add
    lay0 = 3.0
    for u in m["updates"]:
        rs = u["r"][str(sel)]
        rs["atb"], rs["atl"], rs["trd"], rs["ltp"] = [[2.5, 40.0]], [[4.0, 40.0]], [], None
    prices = [3.0, 3.25, 3.5][:n]
    sizes = [float(rng.choice([2, 3, 4])) for _ in range(n)]
    places = [{"op": "place", "sel": sel, "side": "BACK", "type": "LIMIT", "price": p, "size": s_, "persistence": rng.choice(["LAPSE", "PERSIST"])} for p, s_ in zip(prices, sizes)]
    m["updates"][1]["acts"] = {"S0": [{"op": "txn", "acts": places}]}
    reqs = []
    for k in range(n):
        a = {"op": kind, "order": k}
        if kind == "update":
            a["pt"] = "MARKET_ON_CLOSE" if k % 2 else "PERSIST"
        if kind == "replace":
            a["price"] = [3.75, 3.9, 3.95][k]
        reqs.append(a)
    m["updates"][5]["acts"] = {"S0": [{"op": "txn", "acts": reqs}]}
    # volume through the first order's price right after the request (inside the latency)
    vol = 2 * (sizes[0] + 1.0)
    for u in m["updates"][6:]:
        if u["st"] != "CLOSED":
            u["r"][str(sel)]["trd"] = [[3.0, vol]]
            u["r"][str(sel)]["ltp"] = 3.0
    lat = rng.choice([2.0, 4.0, 8.0])
    sc = {
        "world": "A",
        "cfg": {"place_latency": 0.0, "cancel_latency": lat, "update_latency": lat, "replace_latency": lat},
        "clients": [{"bpe": True}],
        "markets": [m],
        "strategies": [{"name": "S0", "markets": [0], "client": 0, "max_live_trade_count": 20, "max_order_exposure": 500, "max_selection_exposure": 5000}],
        "directed": "package-with-order-completed-inside-latency:%s" % kind,
    }
    # make sure at least one update lies beyond the latency
    t_req = m["updates"][5]["pt"]
    last_open = [u for u in m["updates"] if u["st"] != "CLOSED"][-1]
    if (last_open["pt"] - t_req) / 1000.0 <= lat:
        shift = int(lat * 1000) + 500
        for u in m["updates"][7:]:
            u["pt"] += shift
    return sc


def generate(rng, i, tier):
    x = rng.random()
    if x > 0.88:
        return directed_sim_package(rng)
    if x < 0.4:
        # systematic part: cell i of the enumerated fault space (kind x package size x per-instruction outcome
        # assignment x transport fault kind x number of faulted attempts x completion between request and response)
        return livegen.gen_c12_systematic(rng, i)
    if x < 0.57:
        return livegen.gen_live(rng, "C12")
    if x < 0.61:
        return livegen.gen_c12_async_retry(rng)
    if x < 0.65:
        return livegen.gen_cancel_race(rng)
    sc = lifecycle_common.scenario(rng, "C12")
    sc["world"] = "A"
    return sc


def execute(scenario):
    if scenario.get("world") == "B":
        res = live.run_scenario(scenario, LIVE_MONITORS, owner=ID)
        if scenario.get("cell"):
            c = scenario["cell"]
            res.probes["c12.cell.%s.n%d.%s.attempts%d%s" % (c[0], c[1], c[3] or "no-transport-fault", c[4], ".completed-between" if c[5] else "")] += 1
            import zlib

            res.states.add(zlib.crc32(repr(c).encode()))
        return res
    return backtest.run_scenario(scenario, SIM_MONITORS, owner=ID)


def sample_view(sc):
    if sc.get("world") == "B":
        return C11.sample_view(sc)
    return common.sample_view(sc)


def shrink(scenario, test, deadline):
    if scenario.get("world") == "B":
        return C11.shrink_live(scenario, test, deadline)
    return common.shrink(scenario, test, deadline)


def evidence_extra(agg):
    cells = sum(1 for k in agg["probes"] if k.startswith("c12.cell."))
    return {
        "fault_space": {"cells_total": livegen.c12_space_size(), "cell_classes_hit(kind,n,transport,attempts,completed)": cells, "distinct_cells_or_states_hit": len(agg["states"])},
        "exhaustive": False,
    }
