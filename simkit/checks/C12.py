"""C12 - Exchange call faults never strand an order or lose a transaction count."""
from .. import live, livegen, backtest
from ..oracles.reconcile import FaultMonitor
from ..oracles.ledger import LedgerMonitor
from ..oracles.transactions import TransactionMonitor
from . import C11, common, lifecycle_common

ID = "C12"
LEVEL = "fault_enumeration"
TECHNIQUE = "deterministic simulation with fault injection at the exchange-call seam: per-instruction outcomes (SUCCESS / FAILURE x codes / TIMEOUT), shuffled or missing cancel reports, transport and API errors on any attempt (connection error before/after the exchange applied the request, HTTP 503, invalid JSON, APING error) and orders completing between request and response are injected into the real BetfairExecution under a seeded scheduler (World B) and as market states at execution time into the real SimulatedExecution (World A); order progress, retry budget, transaction counts and report attribution are checked after the drain"
BUDGET = {"quick": {"runs": 7000, "wall": 45}, "thorough": {"runs": 350000, "wall": 900}}
RULE = (
    "one evaluation = one seeded session; 60% live sessions with a fault plan over the first 30 API calls (45% of the calls carry a fault: per-instruction report assignment over {SUCCESS, TIMEOUT, FAILURE x 5 codes}, "
    "transport fault kind x attempt, shuffled/omitted cancel reports, runs of faults that exhaust the retry budget), packages of 1-3 orders of each kind, exchange-side fills/lapses between request and response; "
    "40% backtests where packages are executed against suspended/closed markets, removed runners, version mismatches and orders that completed inside the latency window; non-trivial = a non-SUCCESS outcome or a "
    "transport fault was injected (live) / a response was applied after the order completed (simulated); distinct = distinct scenario digests"
)
ASSUMPTIONS = [
    "sampled, not exhaustive: fault assignments are drawn per API call from the seed (the systematic sweep of the design is approximated by the per-cell probes reported in the evidence)",
    "retry budget: 1 call + 3 retries (BaseOrderPackage._max_retries)",
    "a placement is 'still possibly accepted' (PENDING allowed) when every attempt ended with a transport fault after the request had left, a TIMEOUT report, or it was placed async",
    "Betdaq execution is outside, as the property states",
]
COMPONENTS = dict(C11.COMPONENTS, **{"world_A": common.COMPONENTS_A})
LIVE_MONITORS = [FaultMonitor]


class SimProgressMonitor(backtest.Monitor):
    """C12 on the simulated execution: after every handler each order of the package can progress."""

    P = "C12"

    def on_exec_after(self, pkg):
        for o in pkg._orders:
            st = o.status.name if o.status else None
            if st in ("CANCELLING", "UPDATING", "REPLACING", "PENDING"):
                self.violate(self.P, "C12.progress", "sim-order-left-%s:%s" % (st.lower(), pkg.package_type.name), order=o._vid, status_log=[s.name for s in o.status_log])
            if o.trade.status.name == "PENDING":
                self.violate(self.P, "C12.progress", "sim-trade-left-pending:%s" % pkg.package_type.name, order=o._vid)
            lg = [s.name for s in o.status_log]
            if len(lg) >= 2 and lg[-1] == "EXECUTION_COMPLETE" and "EXECUTION_COMPLETE" in lg[:-1]:
                self.res.nontrivial = True
                self.res.probes["c12.sim.response_after_completion"] += 1
        if len(pkg._orders) >= 2:
            self.res.probes["c12.sim.package_of_2plus"] += 1


class C12Transactions(TransactionMonitor):
    P = "C12"

    def violate(self, prop, clause, site, **details):
        if clause in ("C18.total",):
            super().violate("C12", "C12.counts", "sim-" + site, **details)


SIM_MONITORS = [LedgerMonitor, SimProgressMonitor, C12Transactions]


def generate(rng, i, tier):
    if rng.random() < 0.6:
        return livegen.gen_live(rng, "C12")
    sc = lifecycle_common.scenario(rng, "C12")
    sc["world"] = "A"
    return sc


def execute(scenario):
    if scenario.get("world") == "B":
        return live.run_scenario(scenario, LIVE_MONITORS, owner=ID)
    return backtest.run_scenario(scenario, SIM_MONITORS, owner=ID)


def sample_view(sc):
    if sc.get("world") == "B":
        return C11.sample_view(sc)
    return common.sample_view(sc)


def shrink(scenario, test, deadline):
    if scenario.get("world") == "B":
        return C11.shrink_live(scenario, test, deadline)
    return common.shrink(scenario, test, deadline)
