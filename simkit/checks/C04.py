"""C04 - Simulated order sizes are conserved."""
from .. import backtest
from ..oracles.ledger import LedgerMonitor
from ..oracles.sizes import SizesMonitor
from . import common
from .common import sample_view, shrink  # noqa

ID = "C04"
LEVEL = "exploration"
TECHNIQUE = "deterministic simulation of whole backtests (seeded market histories x scripted agents) with bucket-accounting invariants at every strategy call"
BUDGET = {"quick": {"runs": 12000, "wall": 45}, "thorough": {"runs": 600000, "wall": 900}}
RULE = (
    "one evaluation = one seeded scenario (1-2 generated markets with suspensions, version changes, in-play turn with SP "
    "reconciliation, runner removals, closure; 1-2 scripted agents placing/cancelling (partial, oversize)/replacing/updating "
    "limit orders of every flavour) run through the real FlumineSimulation; non-trivial = at least one limit order received "
    "size in two or more different buckets (matched/cancelled/lapsed/voided); distinct = distinct scenario digests"
)
ASSUMPTIONS = [
    "the generated stream lines are a faithful rendering of Betfair mcm data (format taken from bflw's cache code)",
    "audits run at every agent callback, after the simulated middleware and at the end of every update; state between those points is not inspected",
    "LAY limit orders taken to SP: only the total is checked and |remaining| <= 0.01 is accepted as 'nothing remains' (2dp stake re-sizing)",
    "best_price_execution is off in 30% of the scenarios, config.simulation_available_prices is on in 15%",
]
COMPONENTS = common.COMPONENTS_A
MONITORS = [LedgerMonitor, SizesMonitor]


def generate(rng, i, tier):
    knobs = {
        "p_removal": rng.choice([0.0, 0.3, 0.6]),
        "p_suspend": rng.choice([0.0, 0.2, 0.5]),
        "p_inplay": rng.choice([0.0, 0.5, 0.8]),
        "version_on_suspend": rng.choice([0.3, 0.7, 1.0]),
        "n_updates": (6, rng.choice([15, 30, 60])),
    }
    mix = {
        "p_act": rng.choice([0.2, 0.4, 0.7]),
        "p_fok": rng.choice([0.0, 0.15, 0.4]),
        "p_sp": rng.choice([0.0, 0.05]),
        "p_mv": rng.choice([0.0, 0.1, 0.4]),
        "p_partial_cancel": rng.choice([0.2, 0.6]),
        "w_cancel": rng.choice([1, 3]),
        "w_replace": rng.choice([0.5, 2]),
        "persistence": rng.choice([("LAPSE",), ("LAPSE", "PERSIST", "MARKET_ON_CLOSE"), ("MARKET_ON_CLOSE", "PERSIST")]),
    }
    clients = [{"bpe": rng.random() < 0.7, "full_match": rng.random() < 0.1}]
    strat_kw = {"max_live_trade_count": rng.choice([1, 3, 10]), "max_order_exposure": 50, "max_selection_exposure": 200}
    sc = common.base_scenario(
        rng,
        n_markets=rng.choice([1, 1, 1, 2]),
        market_knobs=knobs,
        strategies=rng.choice([1, 1, 2]),
        mix=mix,
        strat_kw=strat_kw,
        clients=clients,
    )
    import random

    side = random.Random("c04-cfg|%d" % rng.getrandbits(32))
    if side.random() < 0.15:
        # config.simulation_available_prices: resting orders are also matched against prices that cross them (a documented,
        # non-default matching mode) - size conservation and completion must hold there just the same
        sc["cfg"]["available_prices"] = True
    return sc


def execute(scenario):
    return backtest.run_scenario(scenario, MONITORS, owner=ID)
