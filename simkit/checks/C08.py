"""C08 - Settlement: simulated profit follows the exchange's rules."""
from .. import backtest
from ..oracles.ledger import LedgerMonitor
from ..oracles.settlement import SettlementMonitor
from . import common
from .common import sample_view, shrink  # noqa

ID = "C08"
LEVEL = "exploration"
TECHNIQUE = "deterministic simulation of whole backtests ending in closure; every order's profit recomputed fill by fill by an independent settlement calculator, mirror-order symmetry, cleared summary per client captured at the logging control"
BUDGET = {"quick": {"runs": 10000, "wall": 45}, "thorough": {"runs": 500000, "wall": 900}}
RULE = (
    "one evaluation = one seeded backtest producing aggressive, passive and SP fills (with price reductions after non-runners) that ends with a "
    "CLOSED update: winner/loser/placed/removed, 2..n dead-heating winners in a one-winner market, EACH_WAY divisors, LINE markets with results "
    "above/below/equal to a struck line, 1-2 clients with different commission rates; non-trivial = a matched order was settled by a non-plain "
    "rule or two clients were present; distinct = distinct scenario digests"
)
ASSUMPTIONS = [
    "exchange rules as stated by the property; LINE markets: even money, sell (BACK) wins when the outcome is below the line, buy (LAY) when above, stake returned when equal (Betfair LINE betting-type definition)",
    "tolerance 0.005 x matched + 0.01 per order: the engine settles on the 2dp average price",
    "dead heats only in one-winner markets; each-way dead heats are not generated (named TODO of the code and of the property)",
]
COMPONENTS = common.COMPONENTS_A
MONITORS = [LedgerMonitor, SettlementMonitor]


def generate(rng, i, tier):
    line = rng.random() < 0.15
    knobs = {
        "line": line,
        "p_close": 1.0,
        "dead_heat": rng.choice([0.0, 0.5]),
        "p_removal": rng.choice([0.0, 0.4]),
        "p_inplay": rng.choice([0.3, 0.8]),
        "bsp": None if line else rng.random() < 0.7,
        "n_updates": (6, rng.choice([12, 25])),
        "p_trade": 0.6,
        "p_lines": 0.12,
        "market_type": None if line else rng.choice([None, "WIN", "EACH_WAY", "PLACE"]),
    }
    mix = {"p_act": rng.choice([0.4, 0.7]), "p_fok": 0.05, "p_sp": 0.0 if line else rng.choice([0.1, 0.3]), "where": ("through", "through", "at", "behind"), "max_size": 9.0, "w_cancel": 0.5, "w_replace": 0.5, "w_update": 0.2, "persistence": ("LAPSE", "PERSIST", "MARKET_ON_CLOSE") if not line else ("LAPSE", "PERSIST")}
    two = rng.random() < 0.4
    clients = [{"commission": rng.choice([0.0, 0.02, 0.05]), "bpe": True}] + ([{"commission": rng.choice([0.05, 0.065]), "bpe": True}] if two else [])
    sc = common.base_scenario(rng, n_markets=1, market_knobs=knobs, strategies=0, mix=mix, clients=clients)
    n_strat = rng.choice([1, 2]) if not two else 2
    for s in range(n_strat):
        st = {"name": "S%d" % s, "markets": [0], "client": (s % 2) if two else 0, "max_live_trade_count": 30, "max_order_exposure": 500, "max_selection_exposure": 5000}
        sc["strategies"].append(st)
        common.agentgen.add_script(rng, sc, st, mix)
    if line:
        m = sc["markets"][0]
        lo, hi, step = m["line"]
        struck = [a["price"] for u in m["updates"] for acts in (u.get("acts") or {}).values() for a in acts if a.get("op") == "place"]
        choices = [lo - 3, hi + 3, lo + 7.25]
        if struck:
            choices += [rng.choice(struck), rng.choice(struck), rng.choice(struck) + step / 2]
        m["line_result"] = rng.choice(choices)
    return sc


def execute(scenario):
    return backtest.run_scenario(scenario, MONITORS, owner=ID)
