"""C15 - Blotter views are coherent with the orders placed."""
from .. import backtest
from ..oracles.ledger import LedgerMonitor
from ..oracles.lifecycle import BlotterMonitor
from . import common, lifecycle_common

ID = "C15"
LEVEL = "exploration"
TECHNIQUE = "deterministic simulation; a shadow list of accepted placements compared with every blotter view, lookup and the live list after every update and every execution, over whole simulated backtests"
BUDGET = {"quick": {"runs": 10000, "wall": 45}, "thorough": {"runs": 500000, "wall": 900}}
RULE = "one evaluation = one seeded backtest: placements, replacements, completions and closures across 2-3 strategies, 1-2 clients and several selections; non-trivial = a replacement order was inserted or two strategies traded two or more selections; distinct = distinct scenario digests"
ASSUMPTIONS = [
    "75% World A backtests (simulated exchange), 25% World B live sessions against the exchange double (legitimate replies and injected API faults, no restarts; in some sessions bets of 'another instance' of a strategy appear at the exchange and are adopted at run time, and one market may close part-way and stay registered)",
    "observation points: every status change, every request, every package and its execution, end of every update",
]
from . import C11 as _c11

COMPONENTS = dict(common.COMPONENTS_A, world_B=_c11.COMPONENTS)
MONITORS = [LedgerMonitor, BlotterMonitor]


def generate(rng, i, tier):
    if rng.random() < 0.04:
        from .. import livegen

        return livegen.gen_replace_race(rng)
    if rng.random() < 0.25:
        from .. import livegen

        sc = livegen.gen_live(rng, "C12" if rng.random() < 0.5 else "C11")
        sc.pop("crash_at", None)
        sc.pop("foreign_bets", None)
        import random

        side = random.Random("c15-live|%d" % rng.getrandbits(32))
        if side.random() < 0.4:
            # bets of another instance of the strategy shown by the order stream part-way; some were already replaced by
            # that instance (original and replacement under one reference, in one message)
            for _ in range(side.choice([1, 2])):
                sc["exchange_events"].insert(side.randint(0, len(sc["exchange_events"])), {"type": "sibling_bet", "market": side.randrange(len(sc["markets"])), "strategy": side.randrange(len(sc["strategies"])), "runner": side.randrange(3), "side": side.choice(["BACK", "LAY"]), "replaced": side.random() < 0.6})
        return sc
    return lifecycle_common.scenario(rng, ID)


def execute(scenario):
    if scenario.get("world") == "B":
        from .. import live

        return live.run_scenario(scenario, [BlotterMonitor], owner=ID)
    return backtest.run_scenario(scenario, MONITORS, owner=ID)


def sample_view(scenario):  # noqa: F811
    if scenario.get("world") == "B":
        from . import C11

        return C11.sample_view(scenario)
    return common.sample_view(scenario)


def shrink(scenario, test, deadline):  # noqa: F811
    if scenario.get("world") == "B":
        from . import C11

        return C11.shrink_live(scenario, test, deadline)
    return common.shrink(scenario, test, deadline)
