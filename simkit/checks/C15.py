"""C15 - Blotter views are coherent with the orders placed."""
from .. import backtest
from ..oracles.ledger import LedgerMonitor
from ..oracles.lifecycle import BlotterMonitor
from . import common, lifecycle_common
from .common import sample_view, shrink  # noqa

ID = "C15"
LEVEL = "exploration"
TECHNIQUE = "deterministic simulation; a shadow list of accepted placements compared with every blotter view, lookup and the live list after every update and every execution, over whole simulated backtests"
BUDGET = {"quick": {"runs": 10000, "wall": 45}, "thorough": {"runs": 500000, "wall": 900}}
RULE = "one evaluation = one seeded backtest: placements, replacements, completions and closures across 2-3 strategies, 1-2 clients and several selections; non-trivial = a replacement order was inserted or two strategies traded two or more selections; distinct = distinct scenario digests"
ASSUMPTIONS = [
    "World A (simulated exchange) only in this version of the check; the live-exchange double facet is covered by the World B checks (C11/C12) where noted in DESIGN.md",
    "observation points: every status change, every request, every package and its execution, end of every update",
]
COMPONENTS = common.COMPONENTS_A
MONITORS = [LedgerMonitor, BlotterMonitor]


def generate(rng, i, tier):
    return lifecycle_common.scenario(rng, ID)


def execute(scenario):
    return backtest.run_scenario(scenario, MONITORS, owner=ID)
