"""C14 - Simulation is deterministic, complete and chronological."""
import copy
import json
import os
import subprocess
import sys
import tempfile
import time

from .. import backtest, core, rt, shrink as _shrink
from ..oracles.ledger import LedgerMonitor
from ..oracles.delivery import DeliveryMonitor
from . import common

ID = "C14"
LEVEL = "exploration"
TECHNIQUE = "deterministic simulation re-executed in two fresh interpreters with different PYTHONHASHSEED and shifted wall clocks (digest equality of the full order/fill/status/profit ledger), plus exactly-once delivery against an independent re-statement of the listener filters, merge order and clock checks inside each run"
BUDGET = {"quick": {"runs": 220, "wall": 50}, "thorough": {"runs": 12000, "wall": 900}}
BATCH = 12
DETERMINISM_SEEDS_CAP = 2  # each evaluation already is 12 backtests x 3 interpreters
RULE = (
    "one evaluation = one batch of %d seeded backtests (1-4 market files, equal/unequal lengths, identical publish times across markets, event_processing "
    "on/off with event groups, listener filters inplay / seconds_to_start / max_inplay_seconds incl. exact-edge values, exposure limits at exact float "
    "boundaries, one run aborted by an exception with raise_errors) executed three times: in the checker process and in two fresh interpreters "
    "(PYTHONHASHSEED 1 and 987654, real clock shifted by +9.5 h and -3 d); non-trivial = the batch contained an interleaved event group or a filter that "
    "removed updates; distinct = distinct batch digests" % BATCH
)
ASSUMPTIONS = [
    "the strategies of one backtest share the listener arguments (one stream per market file), except in a quarter of the grouped two-strategy scenarios where the second strategy has arguments of its own (two interleaved streams per file; expectations are per strategy)",
    "the two fresh interpreters differ from the checker process in hash seed, wall-clock offset (+9.5 h, -3 d) and host time zone (New Zealand, US Eastern; POSIX TZ strings)",
    "ties of identical publish times across markets of one event group may be processed in any order",
]
COMPONENTS = common.COMPONENTS_A
MONITORS = [LedgerMonitor, DeliveryMonitor]


def gen_one(rng):
    n_markets = rng.choice([1, 2, 2, 3, 4])
    grouped = n_markets > 1 and rng.random() < 0.6
    dyadic = rng.random() < 0.3
    knobs = {"p_removal": 0.1, "p_suspend": 0.2, "p_inplay": rng.choice([0.5, 0.9]), "n_updates": (5, rng.choice([10, 25, 50])), "p_trade": 0.6, "dyadic": dyadic, "spacing": rng.choice(["normal", "slow", "mixed", "fast"]), "p_repeat_close": 0.1}
    mix = {"p_act": rng.choice([0.3, 0.6]), "p_fok": 0.05, "p_sp": 0.05, "dyadic": dyadic, "max_size": 6.0, "where": ("through", "at", "behind", "behind")}
    t0 = common.marketgen.T0_MS + rng.randint(0, 500000)
    strat_kw = {"max_live_trade_count": 10, "event_processing": grouped}
    if dyadic:
        strat_kw.update(max_order_exposure=float(rng.choice([2, 3, 4, 6])), max_selection_exposure=float(rng.choice([3, 4, 6, 8])), max_market_exposure=float(rng.choice([4, 8, 12])))
    sc = common.base_scenario(rng, n_markets=n_markets, market_knobs=knobs, strategies=rng.choice([1, 2]), mix=mix, strat_kw=strat_kw, clients=[{"bpe": True}], same_event=False, t0=t0 if grouped else None)
    if grouped:
        # two events, possibly mapped into one group; some identical publish times across markets
        evs = ["30000001", "30000002"]
        for k, m in enumerate(sc["markets"]):
            m["event_id"] = evs[0] if (k % 2 == 0 or rng.random() < 0.5) else evs[1]
        if rng.random() < 0.4:
            for s in sc["strategies"]:
                s["event_groups"] = {evs[0]: "G", evs[1]: "G"}
        if rng.random() < 0.5 and len(sc["markets"]) >= 2:
            a, b = sc["markets"][0], sc["markets"][1]
            for ua, ub in zip(a["updates"][1:4], b["updates"][1:4]):
                ub["pt"] = ua["pt"]
            pts = sorted(set(u["pt"] for u in b["updates"]))
            if len(pts) == len(b["updates"]):
                for u, p in zip(b["updates"], pts):
                    u["pt"] = p
            else:
                base = a["updates"][0]["pt"]
                for k2, u in enumerate(b["updates"]):
                    u["pt"] = base + 1000 * k2
    # listener filters
    lk = {}
    c = rng.random()
    m0 = sc["markets"][0]
    ips = [u["pt"] for u in m0["updates"] if u["ip"]]
    if c < 0.2:
        lk["inplay"] = rng.choice([True, False])
    elif c < 0.4:
        if rng.random() < 0.4:
            # the market is rescheduled part-way through the file: later updates carry a new marketTime
            for m in sc["markets"]:
                if len(m["updates"]) >= 4 and rng.random() < 0.7:
                    k0 = rng.randint(1, len(m["updates"]) - 2)
                    new_mt = m["market_time"] + rng.choice([-1, 1]) * rng.choice([2_000, 30_000, 600_000, 1_800_000])
                    for u in m["updates"][k0:]:
                        u["mt"] = new_mt
        mt = (m0["market_time"] // 1000) * 1000
        cands = [((((u.get("mt") or m0["market_time"]) // 1000) * 1000) - u["pt"]) / 1000.0 for u in m0["updates"] if (u.get("mt") or m0["market_time"]) > u["pt"] + 1000]
        lk["seconds_to_start"] = rng.choice(cands) if cands and rng.random() < 0.6 else rng.choice([1.0, 30.0, 600.0])
    elif c < 0.6 and ips:
        later = [(p - ips[0]) / 1000 for p in ips[1:]]
        lk["max_inplay_seconds"] = rng.choice(later) if later and rng.random() < 0.7 else rng.choice([0, 1, 5])
    if lk:
        for s in sc["strategies"]:
            s["listener_kwargs"] = dict(lk)
    if grouped and len(sc["strategies"]) == 2 and rng.random() < 0.25:
        # the two strategies use listener arguments of their own: flumine builds one stream per (file, listener arguments)
        # and replays the streams of an event group interleaved - each strategy must still be shown every update that
        # passes ITS filters exactly once
        s1 = sc["strategies"][1]
        if lk:
            s1.pop("listener_kwargs", None)
        else:
            s1["listener_kwargs"] = rng.choice([{"inplay": True}, {"inplay": False}, {"seconds_to_start": 86400.0}])
        sc["own_streams"] = True
    if rng.random() < 0.15 and not sc.get("own_streams"):  # (the arrival index cannot tell two streams' copies of a line apart)
        # two consecutive lines of one market with the same publish time (e.g. prices and a definition change published in
        # the same millisecond): both are updates in the data; the second carries no scripted actions
        for m in sc["markets"]:
            cands = [k for k in range(1, len(m["updates"])) if not m["updates"][k].get("acts") and not m["updates"][k].get("oacts") and not m["updates"][k - 1].get("acts") and not m["updates"][k - 1].get("oacts") and m["updates"][k - 1]["pt"] != (m["updates"][k - 2]["pt"] if k >= 2 else None) and all(m["updates"][k].get(f) == m["updates"][k - 1].get(f) for f in ("ip", "st", "mt"))]  # (same in-play flag, status and start time: the listener filters then treat both alike, which the arrival index relies on)
            if cands and rng.random() < 0.7:
                k = rng.choice(cands)
                m["updates"][k]["pt"] = m["updates"][k - 1]["pt"]
                sc["same_pt"] = True
    sc["dyadic"] = dyadic
    if rng.random() < 0.15:
        # a strategy reads the wall clock through SimulatedDateTime.real_time(); in half of these an exception leaves the
        # block (contained by the framework): the simulated clock must be back for every later callback
        sc["strategies"][0]["reads_wall_clock"] = True
        if rng.random() < 0.5:
            sc["inject"] = {"strategy": sc["strategies"][0]["name"], "kind": rng.choice(["check", "book"]), "nth": rng.randint(1, 5), "in_real_time": True}
    elif rng.random() < 0.08:
        sc["cfg"]["raise_errors"] = True
        sc["inject"] = {"strategy": sc["strategies"][0]["name"], "kind": "book", "nth": rng.randint(1, 6), "expect_abort": True}
    return sc


def generate(rng, i, tier):
    return {"world": "A", "batch": [gen_one(rng) for _ in range(BATCH)]}


def run_one(sc):
    return backtest.run_scenario(sc, MONITORS, owner=ID)


def digests_of(batch):
    out = []
    for sc in batch:
        res = run_one(sc)
        out.append([res.digest, sorted(core.vkey(v) for v in res.violations), res.harness_error, res.discarded])
    return out


def _sub(path, hashseed, offset, tz):
    env = dict(os.environ, PYTHONHASHSEED=str(hashseed), VERIF_KEEP_HASHSEED="1", VERIF_CLOCK_OFFSET=str(offset), VERIF_FORCE_TZ=tz)
    p = subprocess.run([sys.executable, os.path.join(rt.VERIF_ROOT, "check"), "selftest", "_c14", path], env=env, stdout=subprocess.PIPE, stderr=subprocess.PIPE, text=True, timeout=600)
    if p.returncode != 0:
        raise core.HarnessError("C14 sub-process failed: %s" % p.stderr[-1500:])
    return json.loads(p.stdout.strip().splitlines()[-1])


def execute(scenario):
    batch = scenario["batch"]
    out = core.Result()
    out.runs = 0
    base = []
    for k, sc in enumerate(batch):
        res = run_one(sc)
        out.runs += 1
        out.sim_seconds += res.sim_seconds
        out.steps += res.steps
        out.probes.update(res.probes)
        out.faults.update(res.faults)
        out.states |= res.states
        if res.nontrivial:
            out.nontrivial = True
        for v in res.violations:
            v["details"]["batch_index"] = k
            out.violations.append(v)
        if res.harness_error and not out.harness_error:
            out.harness_error = res.harness_error
        base.append([res.digest, sorted(core.vkey(v) for v in res.violations), res.harness_error, res.discarded])
    if out.harness_error:
        return out
    fd, path = tempfile.mkstemp(prefix="verif_c14_", suffix=".json")
    try:
        with os.fdopen(fd, "w") as f:
            json.dump(batch, f)
        a = _sub(path, 1, 9.5 * 3600, "NZST-12NZDT,M9.5.0,M4.1.0/3")
        b = _sub(path, 987654, -3 * 86400, "EST5EDT,M3.2.0,M11.1.0")
        out.runs += 2 * len(batch)
    finally:
        try:
            os.remove(path)
        except OSError:
            pass
    norm = json.loads(json.dumps(base))
    for k in range(len(batch)):
        if not (norm[k] == a[k] == b[k]):
            which = "hashseed-clock-or-time-zone" if a[k] != b[k] else "checker-process-vs-fresh-interpreter"
            out.violate(ID, "C14.determinism", "result-differs-between-interpreters:%s" % which, batch_index=k, digests=[norm[k][0][:12], a[k][0][:12], b[k][0][:12]])
    out.digest = core.digest([x[0] for x in base])
    return out


def sample_view(scenario):
    v = common.sample_view(scenario["batch"][0])
    v["batch_size"] = len(scenario["batch"])
    return v


def shrink(scenario, test, deadline):
    # isolate one failing backtest of the batch, then shrink it structurally
    single = None
    for sc in scenario["batch"]:
        if time.time() > deadline:
            break
        if test({"world": "A", "batch": [sc]}):
            single = sc
            break
    if single is None:
        return scenario
    small = _shrink.shrink_backtest(single, lambda s: test({"world": "A", "batch": [s]}), deadline)
    return {"world": "A", "batch": [small]}
