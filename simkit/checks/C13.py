"""C13 - Strategies are isolated from each other and from callback errors."""
import copy

from .. import backtest, core
from ..oracles.ledger import LedgerMonitor, strategy_ledger
from . import common

ID = "C13"
LEVEL = "exploration"
TECHNIQUE = "deterministic simulation, metamorphic: the same scripted strategy run alone, alongside others and in another registration order must produce an identical normalised ledger; fault injection: an exception thrown from one callback invocation must leave every other strategy's delivery sequence and ledger identical to the fault-free run"
BUDGET = {"quick": {"runs": 2500, "wall": 45}, "thorough": {"runs": 150000, "wall": 900}}
RULE = (
    "one evaluation = one seeded case of 3-5 whole backtests over the same generated markets: strategy A alone, A+B, B+A, A+B+C (isolation on, no "
    "transaction limit) compared on A's ledger; then the full set fault-free versus with one exception (generic or FlumineException) injected at the "
    "n-th invocation of one callback kind (check/process market book, process_orders, process_new_market) of one strategy or of an extra middleware; "
    "non-trivial = a co-running strategy placed an order on a runner A also traded, or the injected exception fired; distinct = distinct case digests"
)
ASSUMPTIONS = [
    "co-running strategies share streams (same listener arguments) and one simulated client without transaction limit in half of the World A scenarios; the others do not share markets, the client, or the stream (listener arguments of their own: sequential replays of the same file, or - half of these - interleaved in one event group)",
    "a ledger difference is filed under the known F30 site only when the market was delivered by two or more streams AND the observed strategy was shown exactly the same market books alone and together",
    "80% World A (30% of its single-market cases replay recorded race data through flumine's SimulatedSportsDataMiddleware, with the exception injected into check_sports_data/process_sports_data in 60% of those); 20% World B live sessions (exception injected into check/process market book, process_new_market, process_orders during current-orders processing, custom-event callbacks, an extra market middleware in 40% of them (the exception thrown from it in half of those) and, in a third of them, process_raw_data of a raw-data (DataStream) strategy; delivery of every market update / raw datum to the other strategies checked); in another quarter check_sports_data/process_sports_data of a race-subscription strategy (rcm messages through the real bflw race stream; cricket data is not generated)",
    "process_closed_market is not among the callbacks the property lists and is not injected",
]
from . import C11 as _c11

COMPONENTS = dict(common.COMPONENTS_A, world_B=_c11.COMPONENTS)


class CallOrderMonitor(backtest.Monitor):
    """C13.order: per update, middleware calls precede strategy calls; records delivery sequences."""

    def __init__(self, run):
        super().__init__(run)
        self.seq = []
        self.phase = None

    def on_update_start(self, mid, j, mb):
        self.phase = "start"

    def on_main_event(self, ev):  # World B: one market-book event = one update
        if ev.EVENT_TYPE.name == "MARKET_BOOK":
            self.phase = "start"

    def on_after_matching(self, market):
        if self.phase == "strategies":
            self.violate("C13", "C13.order", "simulated-middleware-after-strategy")
        self.phase = "middleware"

    def on_strategy_call(self, who, market, kind):
        if kind == "middleware":
            if self.phase == "strategies":
                self.violate("C13", "C13.order", "middleware-after-strategy")
            return
        if kind in ("check", "book", "new"):
            self.phase = "strategies"


class ForeignReplayMonitor(backtest.Monitor):
    """Marks strategies whose orders were changed (fill, status, liability) while a book delivered by a stream they are
    not subscribed to was being processed - the mechanism of known finding F30 (same file replayed by another stream)."""

    def __init__(self, run):
        super().__init__(run)
        self.cur_stream = None
        self.seen = {}
        self.touched = set()
        self.streams_by_market = {}

    def on_update_start(self, mid, j, mb):
        self.cur_stream = mb.streaming_unique_id
        self.streams_by_market.setdefault(mid, set()).add(mb.streaming_unique_id)

    @property
    def replayed(self):
        """some market of the run was delivered by two or more streams (replayed with carried-over state: F30)"""
        return any(len(v) >= 2 for v in self.streams_by_market.values())

    def _scan(self, market):
        for o in market.blotter:
            sig = (len(o.simulated.matched), o.status.name if o.status else None, getattr(o.order_type, "liability", None), o.simulated.size_matched)
            old = self.seen.get(o._vid)
            self.seen[o._vid] = sig
            if old is not None and old != sig and self.cur_stream is not None and self.cur_stream not in o.trade.strategy.stream_ids:
                self.touched.add(o.trade.strategy.name)

    def on_before_matching(self, market):
        self._scan(market)

    def on_after_matching(self, market):
        self._scan(market)

    def on_exec_after(self, pkg):
        m = self.run.fw.markets.markets.get(pkg.market_id)
        if m is not None:
            self._scan(m)

    def on_results(self, market, mb):
        self._scan(market)


MONITORS = [LedgerMonitor, CallOrderMonitor, ForeignReplayMonitor]


def generate_live(rng):
    from .. import livegen

    sc = livegen.gen_live(rng, "C11")
    sc.pop("crash_at", None)
    sc.pop("foreign_bets", None)
    if len(sc["strategies"]) < 2:
        sc["strategies"].append({"name": "L1", "markets": list(range(len(sc["markets"]))), "client": 0})
        mix = {"p_act": 0.6, "p_place": 0.6, "w_cancel": 2, "w_update": 1, "w_replace": 2, "packages": False}
        for mi in range(len(sc["markets"])):
            livegen.gen_actions(rng, sc["markets"][mi], "L1", mix)
    sc["inject"] = {"strategy": "L0", "kind": rng.choice(["check", "book", "orders", "orders", "new"]), "nth": rng.randint(1, 6), "flumine": rng.random() < 0.3}
    if rng.random() < 0.35:
        # raw-data (recorder) strategies beside the trading ones; the exception goes into process_raw_data of the first
        for n in ("R3", "R4"):
            sc["strategies"].append({"name": n, "markets": list(range(len(sc["markets"]))), "client": 0, "data_stream": True})
        sc["inject"] = {"strategy": "R3", "kind": "raw", "nth": rng.randint(1, 8), "flumine": rng.random() < 0.3}
    elif rng.random() < 0.4:
        # sports (race) data through the real bflw race stream: S5 and S6 subscribe, the exception goes into S5's check or process callback
        for n in ("S5", "S6"):
            sc["strategies"].append({"name": n, "markets": list(range(len(sc["markets"]))), "client": 0, "sports": True})
        for m in sc["markets"]:
            for k, u in enumerate(m["updates"]):
                if u["st"] != "CLOSED" and rng.random() < 0.6:
                    u["rcm"] = k + 1
        sc["inject"] = {"strategy": "S5", "kind": rng.choice(["sports_check", "sports"]), "nth": rng.randint(1, 6), "flumine": rng.random() < 0.3}
    if rng.random() < 0.4:
        # an extra market middleware in the live loop; in half of these the exception is thrown from the middleware instead
        sc["middlewares"] = [{"name": "mw"}]
        if rng.random() < 0.5:
            sc["middlewares"][0].update(raise_at=rng.randint(1, 8), flumine=rng.random() < 0.3)
            sc["inject"] = {"strategy": "-", "kind": "middleware", "nth": 0}
    sc["custom_events"] = [{"id": "ce%d" % k, "after_mcm": rng.randint(1, 6), "raise": rng.random() < 0.6, "flumine": rng.random() < 0.3} for k in range(rng.choice([0, 1, 2]))]
    sc["live_c13"] = True
    return sc


def execute_live(scenario):
    from .. import live

    run = live.LiveRun(scenario, [CallOrderMonitor], owner=ID)
    res = run.execute()
    if res.harness_error or res.discarded:
        return res
    fired = any(k.startswith("callback_exception") for k in res.faults)
    if fired:
        res.nontrivial = True
    victim = scenario["inject"]["strategy"]
    # every other strategy received every delivered market update exactly once, in order
    for a in run.agents:
        if a.name == victim:
            continue
        for m in scenario["markets"]:
            n = run.market_cursor[m["id"]]
            if a.spec.get("data_stream"):
                exp = [("raw", m["id"], u["pt"]) for u in m["updates"][:n]]
                got = [c for c in a.calls if c[0] == "raw" and c[1] == m["id"]]
                if got != exp:
                    res.violate(ID, "C13.delivery", "live:other-raw-data-strategy-delivery-changed:exception-in-%s" % scenario["inject"]["kind"], strategy=a.name, expected=len(exp), got=len(got), fired=fired)
                continue
            if a.spec.get("sports"):
                for kind in ("sports_check", "sports"):
                    exp = [(kind, m["id"], u["pt"]) for u in m["updates"][:n] if u.get("rcm")]
                    got = [c for c in a.calls if c[0] == kind and c[1] == m["id"]]
                    if got != exp:
                        res.violate(ID, "C13.delivery", "live:other-sports-data-strategy-delivery-changed:exception-in-%s" % scenario["inject"]["kind"], strategy=a.name, callback=kind, expected=len(exp), got=len(got), fired=fired)
            exp = [("check", m["id"], u["pt"]) for u in m["updates"][:n] if u["st"] != "CLOSED"]
            got = [c for c in a.calls if c[0] == "check" and c[1] == m["id"]]
            if got != exp:
                res.violate(ID, "C13.delivery", "live:other-strategy-delivery-changed:exception-in-%s" % scenario["inject"]["kind"], strategy=a.name, expected=len(exp), got=len(got), fired=fired)
    for mw in run.middlewares:
        # the middleware is called once per delivered open update, whatever was thrown (by it or by a strategy) before
        for m in scenario["markets"]:
            n = run.market_cursor[m["id"]]
            exp = [(m["id"], u["pt"]) for u in m["updates"][:n] if u["st"] != "CLOSED"]
            got = [c for c in mw.calls if c[0] == m["id"]]
            if got != exp:
                res.violate(ID, "C13.delivery", "live:middleware-calls-changed:exception-in-%s" % scenario["inject"]["kind"], expected=len(exp), got=len(got), fired=fired)
    want_custom = [ce["id"] for ce in scenario.get("custom_events") or () if ce["after_mcm"] <= sum(run.market_cursor.values())]
    if sorted(run.custom_calls) != sorted(want_custom):
        res.violate(ID, "C13.delivery", "live:custom-event-callbacks", got=run.custom_calls, expected=want_custom)
    return res


def generate(rng, i, tier):
    if rng.random() < 0.2:
        return generate_live(rng)
    knobs = {"p_removal": rng.choice([0.0, 0.35]), "p_suspend": rng.choice([0.0, 0.2]), "p_inplay": rng.choice([0.2, 0.6]), "n_updates": (6, rng.choice([12, 25])), "p_trade": 0.7, "n_runners": (2, 4)}
    mix = {"p_act": rng.choice([0.4, 0.7]), "p_fok": 0.05, "p_sp": 0.05, "where": ("through", "at", "behind", "behind", "behind"), "max_size": 8.0, "w_txn": 0.3}
    sc = common.base_scenario(
        rng,
        n_markets=rng.choice([1, 1, 2]),
        market_knobs=knobs,
        strategies=3,
        mix=mix,
        strat_kw={"max_live_trade_count": 20, "max_order_exposure": 500, "max_selection_exposure": 5000},
        clients=[{"bpe": True, "limit": None}],
    )
    for s, n in zip(sc["strategies"], "ABC"):
        old = s["name"]
        s["name"] = n
        for m in sc["markets"]:
            for u in m["updates"]:
                for key in ("acts", "oacts"):
                    if u.get(key) and old in u[key]:
                        u[key][n] = u[key].pop(old)
    sc["cfg"]["isolation"] = True
    # not sharing: B/C may subscribe to a subset of the markets, trade through a client of their own, or use listener
    # arguments of their own (flumine then builds a separate stream for the same file)
    share = rng.random()
    if share < 0.2 and len(sc["markets"]) == 2:
        for s in sc["strategies"][1:]:
            s["markets"] = [rng.choice([0, 1])]
            for mi, m in enumerate(sc["markets"]):
                if mi not in s["markets"]:
                    for u in m["updates"]:
                        for key in ("acts", "oacts"):
                            (u.get(key) or {}).pop(s["name"], None)
        sc["not_sharing"] = "markets"
    elif share < 0.4:
        sc["clients"].append({"bpe": True, "limit": None, "commission": 0.02})
        for s in sc["strategies"][1:]:
            s["client"] = 1
        sc["not_sharing"] = "client"
    elif share < 0.5:
        for s in sc["strategies"][1:]:
            s["listener_kwargs"] = {"inplay": rng.choice([True, False])} if rng.random() < 0.5 else {"seconds_to_start": 86400.0}
        sc["not_sharing"] = "stream"
        if rng.random() < 0.5:
            # ... and all of them as one event group: the streams of the same file are then replayed interleaved
            for s in sc["strategies"]:
                s["event_processing"] = True
            sc["not_sharing"] = "stream-in-one-event-group"
        unclosed = [m for m in sc["markets"] if m["updates"][-1]["st"] != "CLOSED"]
        if unclosed and rng.random() < 0.8:
            # recorded files normally end with the closing update; the remaining fifth keeps truncated files
            from .. import marketgen

            for m in unclosed:
                m["updates"].append(marketgen._closing_update(rng, m, m["updates"][-1], m["updates"][-1]["pt"] + 1000, dict(marketgen.DEFAULT_KNOBS)))
        elif unclosed:
            sc["not_sharing"] = "stream-on-truncated-file"
    sports = len(sc["markets"]) == 1 and rng.random() < 0.3
    if sports:
        # recorded race data replayed by flumine's SimulatedSportsDataMiddleware (one market: the middleware holds one generator)
        sc["sports_data"] = True
        for k, u in enumerate(sc["markets"][0]["updates"]):
            if u["st"] != "CLOSED" and rng.random() < 0.6:
                u["rcm"] = k + 1
    target = rng.choice(["B", "B", "C", "mw"])
    if target == "mw":
        sc["fault"] = {"middleware": {"name": "mw", "raise_at": rng.randint(1, 10), "flumine": rng.random() < 0.3}}
    else:
        sc["fault"] = {"inject": {"strategy": target, "kind": rng.choice(["check", "book", "book", "orders", "new"]), "nth": rng.randint(1, 8), "flumine": rng.random() < 0.3}}
        if sports and rng.random() < 0.6:
            sc["fault"]["inject"]["kind"] = rng.choice(["sports_check", "sports"])
            sc["fault"]["inject"]["nth"] = rng.randint(1, 5)
    return sc


def _variant(sc, names, fault=False):
    v = copy.deepcopy(sc)
    by = {s["name"]: s for s in v["strategies"]}
    v["strategies"] = [by[n] for n in names]
    f = v.pop("fault", None) or {}
    if fault:
        if "inject" in f:
            v["inject"] = f["inject"]
        if "middleware" in f:
            v["middlewares"] = [f["middleware"]]
    elif "middleware" in f:
        v["middlewares"] = [{"name": "mw"}]
    return v


def _run(sc):
    run = backtest.BacktestRun(sc, MONITORS, owner=ID)
    res = run.execute()
    led = run.monitors[0] if run.monitors else None
    calls = {a.name: list(a.calls) for a in run.agents}
    return run, res, led, calls


def execute(scenario):
    if scenario.get("live_c13"):
        return execute_live(scenario)
    out = core.Result()
    out.runs = 0
    names = [s["name"] for s in scenario["strategies"]]
    ledgers = {}
    digs = []

    def absorb(res):
        out.runs += 1
        out.sim_seconds += res.sim_seconds
        out.steps += res.steps
        out.probes.update(res.probes)
        out.faults.update(res.faults)
        out.states |= res.states
        digs.append(res.digest)
        for v in res.violations:
            out.violations.append(v)
        if res.harness_error and not out.harness_error:
            out.harness_error = res.harness_error
        if res.discarded and not out.discarded:
            out.discarded = res.discarded

    if scenario.get("not_sharing"):
        out.probes["c13.not_sharing.%s" % scenario["not_sharing"]] += 1
    if "A" in names:
        variants = [["A"]]
        if "B" in names:
            variants += [["A", "B"], ["B", "A"]]
        if "B" in names and "C" in names:
            variants.append(["A", "B", "C"])
        base = None
        for vs in variants:
            run, res, led, calls = _run(_variant(scenario, vs))
            absorb(res)
            if out.harness_error or out.discarded or led is None or not hasattr(led, "rows"):
                return out
            la = strategy_ledger(led, "A")
            # market books shown to A (per market, in order). Not a clause of its own (C13's isolation sentence speaks about
            # A's orders), but the discriminator for F30: there A is shown exactly the same books and only the matching differs
            ca = {}
            for c in calls.get("A") or []:
                if c[0] in ("check", "book"):
                    ca.setdefault(c[1], []).append((c[0], c[2]))
            cn = sorted(c[1:] for c in calls.get("A") or [] if c[0] == "new")
            if base is None:
                base_calls, base_new = ca, cn
            shown_differs = ca != base_calls
            if cn != base_new:
                out.probes["c13.observed.process_new_market_of_A_depends_on_co_runners"] += 1
            if base is None:
                base = la
            elif la != base:
                k = next((i for i, (x, y) in enumerate(zip(base, la)) if x != y), min(len(base), len(la)))
                f30 = str(scenario.get("not_sharing", "")).startswith("stream") and run.monitors[2].replayed and not shown_differs
                if f30 and "A" in run.monitors[2].touched:
                    out.probes["c13.f30.order_of_A_changed_during_another_streams_replay"] += 1
                out.violate(ID, "C13.isolation", "ledger-of-A-differs:" + ("separate-stream-on-the-same-file:" if f30 else "A-was-shown-different-market-books:" if shown_differs else "") + "+".join(vs), alone=str(base[k] if k < len(base) else None)[:500], together=str(la[k] if k < len(la) else None)[:500], orders_alone=len(base), orders_together=len(la))
            if len(vs) > 1:
                sel_a = set((r[1], r[2]) for r in la)
                for other in vs:
                    if other != "A" and sel_a & set((r[1], r[2]) for r in strategy_ledger(led, other)):
                        out.nontrivial = True
                        out.probes["c13.co_running_strategy_on_same_runner"] += 1
    # fault injection: full set, fault-free vs. injected
    if scenario.get("fault") and len(names) >= 2:
        run0, res0, led0, calls0 = _run(_variant(scenario, names, fault=False))
        absorb(res0)
        run1, res1, led1, calls1 = _run(_variant(scenario, names, fault=True))
        absorb(res1)
        if out.harness_error or out.discarded or not hasattr(led0, "rows") or not hasattr(led1, "rows"):
            return out
        fired = any(k.startswith("callback_exception") for k in res1.faults)
        if fired:
            out.nontrivial = True
        if scenario.get("sports_data"):
            # fault-free run: which recorded race updates reached the strategies (reach probe; the C13 clause is the comparison below)
            m = scenario["markets"][0]
            delivered = set(pt for (mid, pt) in run0.update_log)
            want = [u["pt"] - 1 for u in m["updates"] if u.get("rcm") and u["pt"] in delivered]
            for n in names:
                for kind in ("sports_check", "sports"):
                    got = [c[2] for c in calls0.get(n) or [] if c[0] == kind]
                    # observation only (not part of C13, which speaks about the effect of an exception): flumine's sports-data
                    # middleware re-delivers the last recorded update at every later market book once its file is exhausted
                    dedup = [x for i, x in enumerate(got) if i == 0 or x != got[i - 1]]
                    if got != want:
                        out.probes["c13.observed.sports_update_redelivered_after_file_end"] += 1
                    if dedup != want:
                        out.probes["c13.observed.sports_delivery_differs_otherwise"] += 1
            out.probes["c13.sim_sports_data_updates"] += len(want)
        victim = (scenario["fault"].get("inject") or {}).get("strategy")
        for n in names:
            if n == victim:
                continue
            if calls0.get(n) != calls1.get(n):
                a, b = calls0.get(n) or [], calls1.get(n) or []
                k = next((i for i, (x, y) in enumerate(zip(a, b)) if x != y), min(len(a), len(b)))
                out.violate(ID, "C13.delivery", "other-strategy-delivery-changed:%s" % _fault_site(scenario), strategy=n, fault_free=str(a[k : k + 3]), with_fault=str(b[k : k + 3]), n_fault_free=len(a), n_with_fault=len(b), fired=fired)
            if strategy_ledger(led0, n) != strategy_ledger(led1, n):
                out.violate(ID, "C13.state", "other-strategy-ledger-changed:%s" % _fault_site(scenario), strategy=n, fired=fired)
    out.digest = core.digest(digs)
    return out


def sample_view(scenario):  # noqa: F811
    if scenario.get("live_c13"):
        from . import C11

        v = C11.sample_view(scenario)
        v["inject"] = scenario["inject"]
        v["custom_events"] = scenario.get("custom_events")
        return v
    return common.sample_view(scenario)


def shrink(scenario, test, deadline):  # noqa: F811
    if scenario.get("live_c13"):
        from . import C11

        return C11.shrink_live(scenario, test, deadline)
    return common.shrink(scenario, test, deadline)


def _fault_site(sc):
    f = sc.get("fault") or {}
    if "inject" in f:
        return "exception-in-%s" % f["inject"]["kind"]
    return "exception-in-middleware"
