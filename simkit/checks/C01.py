"""C01 - Exposure limits bound every order that reaches the exchange."""
from .. import backtest
from ..oracles.ledger import LedgerMonitor
from ..oracles.exposure import ExposureMonitor
from . import common
from .common import sample_view, shrink  # noqa

ID = "C01"
LEVEL = "exploration"
TECHNIQUE = "deterministic simulation of whole backtests; every place/replace decision compared with an independent brute-force worst-case position calculator, worst-case and realised loss per selection re-checked at every update and at settlement"
BUDGET = {"quick": {"runs": 10000, "wall": 45}, "thorough": {"runs": 500000, "wall": 900}}
RULE = (
    "one evaluation = one seeded backtest where agents trade through the default controls without force under randomly drawn "
    "max_order/selection/market exposure limits (None, tight, loose, exact-boundary in float-exact scenarios): LIMIT BACK/LAY, "
    "LOC, MOC, LINE_RANGE orders, replaces to lower/higher prices, cancels, followed by fills, lapses, SP reconciliation, removals and "
    "closure; non-trivial = a decision was taken within +-25% of a limit and the position later changed by a fill/cancel/lapse; "
    "distinct = distinct scenario digests"
)
ASSUMPTIONS = [
    "accepted => within the limit is asserted against the true post-state (matched fragments exactly, unmatched remainder at its limit price, new order in full; replace: remainder at the NEW price)",
    "refused => over the limit is asserted only for refusals by the exposure clauses of StrategyExposure and against the most conservative documented counting (starting-price liabilities always counted, 2dp average prices)",
    "exact equality with a limit counts as within it; it is asserted only in float-exact (dyadic) scenarios, inside a 1e-6 band either verdict is accepted otherwise",
    "the consequence clause is checked only for strategies running with acknowledgement discipline and for the per-selection limit, as the property states",
    "boundary-seeking placements: in 45% of the non-float-exact scenarios a third of the LIMIT placements are sized at run time (from the oracle's own position calculator) to land 0.2 p outside / inside the band around max_selection_exposure in which either verdict is accepted",
    "a quarter of the scenarios run under a foreign host time zone (scenario key tz)",
    "a third of the ordinary two-market scenarios take a second decision on a market whose book has not changed since the first one: a placement on market 0 from its own callback and another on the same selection from the callback of the next update of market 1 (before market 0 is updated again), place latency 0 so that the first order is acknowledged in between, each placement 60% of the per-selection limit",
]
COMPONENTS = common.COMPONENTS_A
MONITORS = [LedgerMonitor, ExposureMonitor]


def generate(rng, i, tier):
    dyadic = rng.random() < 0.35
    line = rng.random() < 0.06
    mtype = None if line else rng.choice(["WIN", "WIN", "PLACE", "OTHER_PLACE", None])
    knobs = {
        "line": line,
        "dyadic": dyadic and not line,
        "market_type": mtype,
        # removals (price reductions) are not among the LATER histories the property quantifies over, but a decision taken
        # after a removal must count the positions as they are then: a sixth of the non-dyadic scenarios have removals, the
        # consequence clause stops for a market once a runner is removed, the decision clause goes on
        "p_removal": 0.3 if (not dyadic and not line and rng.random() < 0.17) else 0.0,
        "p_suspend": rng.choice([0.0, 0.2]),
        "p_inplay": rng.choice([0.2, 0.7]),
        "bsp": None if line else rng.random() < 0.7,
        "n_updates": (8, rng.choice([16, 30, 50])),
        "p_trade": 0.6,
        "p_close": 0.9,
    }
    max_size = rng.choice([3.0, 6.0, 12.0])
    mix = {
        "p_act": rng.choice([0.4, 0.7]),
        "p_fok": 0.05,
        "p_sp": 0.0 if line else rng.choice([0.0, 0.15, 0.3]),
        "where": ("through", "at", "behind", "behind"),
        "max_size": max_size,
        "w_cancel": 1,
        "w_replace": rng.choice([0.5, 2.5]),
        "w_update": 0.2,
        "w_txn": 0.2,
        "dyadic": dyadic and not line,
        "p_mv": 0.02,
    }
    def lim(scale):
        c = rng.random()
        if c < 0.2:
            return None
        if c < 0.23:
            return 0.0  # a limit of zero: nothing that can lose may be sent
        if dyadic:
            return float(rng.choice([1, 2, 3, 4, 5, 6, 8, 10, 12, 20]))
        return round(rng.choice([0.5, 1.0, 2.0, 4.0]) * scale, 2) if c < 0.8 else 1000.0
    strat_kw = {
        "max_order_exposure": lim(max_size * 0.8),
        "max_selection_exposure": lim(max_size * 1.5),
        "max_market_exposure": lim(max_size * 2.5) if rng.random() < 0.5 else None,
        "max_live_trade_count": rng.choice([1, 5, 50]),
        "discipline": rng.random() < 0.8,
    }
    sc = common.base_scenario(rng, n_markets=rng.choice([1, 1, 2]), market_knobs=knobs, strategies=rng.choice([1, 1, 2]), mix=mix, strat_kw=strat_kw, clients=[{"bpe": True}])
    sc["dyadic"] = dyadic and not line
    if not dyadic and not line and rng.random() < 0.45:
        # boundary-seeking agents: some LIMIT placements are sized at run time (from the oracle's own position calculator)
        # to land a few tenths of a penny outside / inside the band around max_selection_exposure
        side_rng = common.marketgen.random.Random("c01-probe|%d" % rng.getrandbits(32))

        def mark(acts):
            for a in acts:
                if a.get("op") == "txn":
                    mark(a["acts"])
                elif a.get("op") == "place" and a.get("type", "LIMIT") == "LIMIT" and not a.get("tif") and side_rng.random() < 0.35:
                    a["probe"] = side_rng.choice(["over", "over", "under"])

        for m in sc["markets"]:
            for u in m["updates"]:
                for key in ("acts", "oacts"):
                    for acts in (u.get(key) or {}).values():
                        mark(acts)
        sc["boundary_seeking"] = True
    if not line and not dyadic and len(sc["markets"]) >= 2 and rng.random() < 0.35:
        # (round 22, C01-m) a second decision on a market whose book has NOT changed since the first one, after the position
        # changed: the strategy places on market 0 from market 0's callback and again - same selection - from the callback
        # of the next update of market 1, which falls before market 0's next update; the place latency is zero, so the first
        # order is acknowledged (and counts) when the second decision is taken. Each placement is 60 % of the limit.
        s0 = sc["strategies"][0]
        m0, m1 = sc["markets"][0], sc["markets"][1]
        u0s, u1s = m0["updates"], m1["updates"]
        pairs = []
        for k in range(1, len(u0s) - 1):
            if u0s[k]["st"] != "OPEN" or u0s[k].get("ip"):
                continue
            for q in range(1, len(u1s)):
                if u0s[k]["pt"] < u1s[q]["pt"] < u0s[k + 1]["pt"] and u1s[q]["st"] == "OPEN":
                    pairs.append((k, q))
                    break
        if pairs and 0 in s0["markets"] and 1 in s0["markets"]:
            k, q = rng.choice(pairs)
            lim_ = s0.get("max_selection_exposure")
            if not lim_ or lim_ > 900:
                lim_ = s0["max_selection_exposure"] = rng.choice([4.0, 7.5])
            size = round(lim_ * 0.6, 2)
            if s0.get("max_order_exposure") is not None and s0["max_order_exposure"] < size:
                s0["max_order_exposure"] = None
            s0["max_market_exposure"] = None
            s0["max_live_trade_count"] = max(5, s0.get("max_live_trade_count") or 5)
            sel = rng.choice(m0["runners"])
            act = {"op": "place", "sel": sel, "side": "BACK", "type": "LIMIT", "price": 900.0, "size": size, "persistence": "LAPSE"}
            u0s[k].setdefault("acts", {})[s0["name"]] = [dict(act)]
            u1s[q].setdefault("acts", {})[s0["name"]] = [dict(act, mkt=0)]
            sc["cfg"]["place_latency"] = 0.0
            sc["second_decision_on_an_unchanged_book"] = True
    if line:
        for m in sc["markets"]:
            lo, hi, step = m["line"]
            m["line_result"] = rng.choice([lo - 2, hi + 2, lo + rng.randint(0, 30) * step, lo + rng.randint(0, 30) * step + step / 2])
    return sc


def execute(scenario):
    return backtest.run_scenario(scenario, MONITORS, owner=ID)
