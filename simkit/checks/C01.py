"""C01 - Exposure limits bound every order that reaches the exchange."""
from .. import backtest
from ..oracles.ledger import LedgerMonitor
from ..oracles.exposure import ExposureMonitor
from . import common
from .common import sample_view, shrink  # noqa

ID = "C01"
LEVEL = "exploration"
TECHNIQUE = "deterministic simulation of whole backtests; every place/replace decision compared with an independent brute-force worst-case position calculator, worst-case and realised loss per selection re-checked at every update and at settlement"
BUDGET = {"quick": {"runs": 10000, "wall": 45}, "thorough": {"runs": 500000, "wall": 900}}
RULE = (
    "one evaluation = one seeded backtest where agents trade through the default controls without force under randomly drawn "
    "max_order/selection/market exposure limits (None, tight, loose, exact-boundary in float-exact scenarios): LIMIT BACK/LAY, "
    "LOC, MOC, LINE_RANGE orders, replaces to lower/higher prices, cancels, followed by fills, lapses, SP reconciliation, removals and "
    "closure; non-trivial = a decision was taken within +-25% of a limit and the position later changed by a fill/cancel/lapse; "
    "distinct = distinct scenario digests"
)
ASSUMPTIONS = [
    "accepted => within the limit is asserted against the true post-state (matched fragments exactly, unmatched remainder at its limit price, new order in full; replace: remainder at the NEW price)",
    "refused => over the limit is asserted only for refusals by the exposure clauses of StrategyExposure and against the most conservative documented counting (starting-price liabilities always counted, 2dp average prices)",
    "exact equality with a limit counts as within it; it is asserted only in float-exact (dyadic) scenarios, inside a 1e-6 band either verdict is accepted otherwise",
    "the consequence clause is checked only for strategies running with acknowledgement discipline and for the per-selection limit, as the property states",
    "boundary-seeking placements: in 45% of the non-float-exact scenarios a third of the LIMIT placements are sized at run time (from the oracle's own position calculator) to land 0.2 p outside / inside the band around max_selection_exposure in which either verdict is accepted",
    "a quarter of the scenarios run under a foreign host time zone (scenario key tz)",
]
COMPONENTS = common.COMPONENTS_A
MONITORS = [LedgerMonitor, ExposureMonitor]


def generate(rng, i, tier):
    dyadic = rng.random() < 0.35
    line = rng.random() < 0.06
    mtype = None if line else rng.choice(["WIN", "WIN", "PLACE", "OTHER_PLACE", None])
    knobs = {
        "line": line,
        "dyadic": dyadic and not line,
        "market_type": mtype,
        # removals (price reductions) are not among the LATER histories the property quantifies over, but a decision taken
        # after a removal must count the positions as they are then: a sixth of the non-dyadic scenarios have removals, the
        # consequence clause stops for a market once a runner is removed, the decision clause goes on
        "p_removal": 0.3 if (not dyadic and not line and rng.random() < 0.17) else 0.0,
        "p_suspend": rng.choice([0.0, 0.2]),
        "p_inplay": rng.choice([0.2, 0.7]),
        "bsp": None if line else rng.random() < 0.7,
        "n_updates": (8, rng.choice([16, 30, 50])),
        "p_trade": 0.6,
        "p_close": 0.9,
    }
    max_size = rng.choice([3.0, 6.0, 12.0])
    mix = {
        "p_act": rng.choice([0.4, 0.7]),
        "p_fok": 0.05,
        "p_sp": 0.0 if line else rng.choice([0.0, 0.15, 0.3]),
        "where": ("through", "at", "behind", "behind"),
        "max_size": max_size,
        "w_cancel": 1,
        "w_replace": rng.choice([0.5, 2.5]),
        "w_update": 0.2,
        "w_txn": 0.2,
        "dyadic": dyadic and not line,
        "p_mv": 0.02,
    }
    def lim(scale):
        c = rng.random()
        if c < 0.2:
            return None
        if c < 0.23:
            return 0.0  # a limit of zero: nothing that can lose may be sent
        if dyadic:
            return float(rng.choice([1, 2, 3, 4, 5, 6, 8, 10, 12, 20]))
        return round(rng.choice([0.5, 1.0, 2.0, 4.0]) * scale, 2) if c < 0.8 else 1000.0
    strat_kw = {
        "max_order_exposure": lim(max_size * 0.8),
        "max_selection_exposure": lim(max_size * 1.5),
        "max_market_exposure": lim(max_size * 2.5) if rng.random() < 0.5 else None,
        "max_live_trade_count": rng.choice([1, 5, 50]),
        "discipline": rng.random() < 0.8,
    }
    sc = common.base_scenario(rng, n_markets=rng.choice([1, 1, 2]), market_knobs=knobs, strategies=rng.choice([1, 1, 2]), mix=mix, strat_kw=strat_kw, clients=[{"bpe": True}])
    sc["dyadic"] = dyadic and not line
    if not dyadic and not line and rng.random() < 0.45:
        # boundary-seeking agents: some LIMIT placements are sized at run time (from the oracle's own position calculator)
        # to land a few tenths of a penny outside / inside the band around max_selection_exposure
        side_rng = common.marketgen.random.Random("c01-probe|%d" % rng.getrandbits(32))

        def mark(acts):
            for a in acts:
                if a.get("op") == "txn":
                    mark(a["acts"])
                elif a.get("op") == "place" and a.get("type", "LIMIT") == "LIMIT" and not a.get("tif") and side_rng.random() < 0.35:
                    a["probe"] = side_rng.choice(["over", "over", "under"])

        for m in sc["markets"]:
            for u in m["updates"]:
                for key in ("acts", "oacts"):
                    for acts in (u.get(key) or {}).values():
                        mark(acts)
        sc["boundary_seeking"] = True
    if line:
        for m in sc["markets"]:
            lo, hi, step = m["line"]
            m["line_result"] = rng.choice([lo - 2, hi + 2, lo + rng.randint(0, 30) * step, lo + rng.randint(0, 30) * step + step / 2])
    return sc


def execute(scenario):
    return backtest.run_scenario(scenario, MONITORS, owner=ID)
