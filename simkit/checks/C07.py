"""C07 - Simulated latency and bet delay: no look-ahead and no free speed."""
from .. import backtest, agentgen
from ..oracles.ledger import LedgerMonitor
from ..oracles.matching import PackageTracker, FillMonitor, LatencyMonitor
from . import common
from .common import sample_view, shrink  # noqa

ID = "C07"
LEVEL = "exploration"
TECHNIQUE = "deterministic simulation of whole backtests; effective update of every request recomputed from publish times and the scenario's latency/bet-delay, book-before-update and all recorded time stamps checked over the history"
BUDGET = {"quick": {"runs": 10000, "wall": 45}, "thorough": {"runs": 500000, "wall": 900}}
RULE = (
    "one evaluation = one seeded backtest (update spacings 1 ms .. minutes, per-run place/cancel/update/replace latencies 0..2 s incl. "
    "float-exact boundary values, bet delay 0..12 s changing at the in-play turn, single-market and event-grouped runs with requests on "
    "another market of the event); non-trivial = some request's effective update was not the next update of its market or it carried a "
    "bet delay; distinct = distinct scenario digests"
)
ASSUMPTIONS = [
    "exact-boundary policy: publish times are whole milliseconds, so an update exactly latency (+ bet delay) after the request is not 'more than' it and must not execute the request; only where the delay is a float sum on which exact decimal arithmetic and plain float arithmetic disagree either verdict is accepted",
    "a quarter of the scenarios run under a foreign host time zone (scenario key tz); a fifth run with config.async_place_orders = True (the simulated delays must not depend on it)",
    "fragment time stamps of placement fills are the publish time of the book matched against (previous update); only 'not from the future' is demanded of them",
]
COMPONENTS = common.COMPONENTS_A
MONITORS = [LedgerMonitor, PackageTracker, FillMonitor, LatencyMonitor]


def generate(rng, i, tier):
    dyadic = rng.random() < 0.3
    grouped = rng.random() < 0.3
    knobs = {
        "p_removal": rng.choice([0.0, 0.2]),
        "p_suspend": rng.choice([0.0, 0.2]),
        "p_inplay": rng.choice([0.3, 0.9]),
        "n_updates": (6, rng.choice([15, 30, 50])),
        "spacing": rng.choice(["fast", "normal", "slow", "mixed"]),
        "dyadic": dyadic,
    }
    mix = {"p_act": rng.choice([0.3, 0.6]), "p_fok": 0.1, "p_sp": 0.05, "dyadic": dyadic, "max_size": 6.0, "where": ("through", "at", "behind", "behind")}
    sc = common.base_scenario(
        rng,
        n_markets=rng.choice([2, 3]) if grouped else 1,
        market_knobs=knobs,
        strategies=rng.choice([1, 2]),
        mix=mix,
        strat_kw={"max_live_trade_count": 20, "max_order_exposure": 500, "max_selection_exposure": 5000, "event_processing": grouped},
        clients=[{"bpe": True}],
        same_event=grouped,
        t0=common.marketgen.T0_MS + rng.randint(0, 100000) if grouped else None,
    )
    sc["dyadic"] = dyadic
    import random

    side = random.Random("c07-cfg|%d" % rng.getrandbits(32))
    if side.random() < 0.2:
        sc["cfg"]["async"] = True  # config.async_place_orders: a live-trading switch, the simulated delays must not depend on it
    if grouped:
        # some requests target another market of the event (they fall between two updates of that market)
        n = len(sc["markets"])
        for m in sc["markets"]:
            for u in m["updates"]:
                for acts in (u.get("acts") or {}).values():
                    for a in acts:
                        if a["op"] != "txn" and rng.random() < 0.3:
                            k = rng.randrange(n)
                            if a["op"] != "place" or a["sel"] in sc["markets"][k]["runners"]:
                                a["mkt"] = k
    return sc


def execute(scenario):
    return backtest.run_scenario(scenario, MONITORS, owner=ID)
