"""C18 - The transaction-limit control counts exactly and blocks when exceeded."""
from .. import backtest
from ..oracles.ledger import LedgerMonitor
from ..oracles.transactions import TransactionMonitor
from . import common

ID = "C18"
LEVEL = "exploration"
TECHNIQUE = "deterministic simulation; a shadow transaction counter fed from the packages and instruction reports seen at the execution seam is compared with the client's counters after every request and execution, hour restarts and blocking verdicts recomputed from the simulated clock (World A); requests validated while executions finish on pool tasks in any order under clock ticks of up to an hour (World B); opcode-level pre-emption of concurrent add_transaction calls (World C)"
BUDGET = {"quick": {"runs": 10000, "wall": 45}, "thorough": {"runs": 500000, "wall": 900}}
RULE = (
    "one evaluation = one seeded backtest over 1-3 sequential markets whose publish times cross hour and day boundaries (and jump backwards between markets), "
    "1-2 clients with transaction limits None/0/1/3/20, packages of all kinds with failing cancels/updates/replaces, forced and non-forced requests (85%); or 2-3 concurrent "
    "add_transaction calls under opcode-level pre-emption with a seeded switch tape (15%); non-trivial = the hourly figure exceeded a limit, the hourly counters were "
    "restarted by a request in a new clock hour, or an opcode schedule switched threads at least twice; distinct = distinct scenario digests"
)
ASSUMPTIONS = [
    "counting convention as stated by the property: placement and replacement instructions of executed packages plus failed cancel/update reports and failed cancel parts of replaces",
    "the hourly counters restart at the first non-forced request that reaches the client control in a new clock hour (a request refused earlier by a trading control does not reach it)",
    "12% World B live sessions: the shadow is fed from add_transaction (hour restart and blocking verdict under interleavings); with two clients (part of the sessions, a strategy each, one execution object) every client's total is reconciled at the end with its own answered calls (C18.isolation); pool threads may be suspended between two instruction reports of a reply (yield_pct)",
]
COMPONENTS = dict(common.COMPONENTS_A, world_C=["real: MaxTransactionCount.add_transaction executed by 2-3 real threads pre-empted after every bytecode instruction (sys.settrace opcode events), switch order from the seeded tape", "stub: the control's threading.Lock -> cooperative lock owned by the scheduler"])
MONITORS = [LedgerMonitor, TransactionMonitor]
HOUR = 3600_000


def generate(rng, i, tier):
    if rng.random() < 0.12:
        # World B: requests validated on the main loop while executions finish on pool tasks in any order; clock ticks of
        # up to an hour between steps
        from .. import livegen

        sc = livegen.gen_live(rng, "C12" if rng.random() < 0.4 else "C11")
        sc.pop("crash_at", None)
        sc.pop("foreign_bets", None)
        sc["clients"] = [{"limit": rng.choice([0, 1, 3, 5, 20, None])}]
        sc["idle_ticks"] = True
        sc["tick_seconds"] = rng.choice([0.25, 600.0, 1800.0, 3600.0])
        sc["live_c18"] = True
        import random

        side = random.Random("c18-live|%d" % rng.getrandbits(32))
        if side.random() < 0.5 and len(sc["strategies"]) == 1:
            # a second strategy with requests of its own (so that two clients can be busy at the same time)
            sc["strategies"].append({"name": "L1", "markets": list(range(len(sc["markets"]))), "client": 0})
            mix2 = {"p_act": 0.9, "p_place": 0.5, "w_cancel": 2, "w_update": 1, "w_replace": 2, "packages": True, "p_sp": 0.0, "p_fok": 0.0}
            for mk in sc["markets"]:
                livegen.gen_actions(side, mk, "L1", mix2)
        if side.random() < 0.6 and len(sc["strategies"]) >= 2:
            # two clients (one execution object, one thread pool): the strategies trade through a client each
            sc["clients"].append({"limit": side.choice([0, 1, 3, 5, 20, None])})
            for k, st in enumerate(sc["strategies"]):
                st["client"] = k % 2
            # (World B models one order stream: bets of other instances would be adopted under an arbitrary client)
            sc["exchange_events"] = [e for e in sc["exchange_events"] if e.get("type") != "sibling_bet"]
        if side.random() < 0.5:
            sc["yield_pct"] = side.choice([30, 70])  # pool threads may be suspended inside the processing of a reply
        if len(sc["clients"]) == 2 and side.random() < 0.5:
            # directed: both clients busy with requests that fail per instruction, replies processed in overlapping fashion
            sc["yield_pct"] = 70
            sc["cfg"]["max_workers"] = 32
            sc["faults"] = {str(n): {"reports": [side.choice(["SUCCESS", "FAILURE:ERROR_IN_ORDER", "FAILURE:BET_ACTION_ERROR"]) for _ in range(3)]} for n in range(2, 30) if side.random() < 0.7}
            sc["directed"] = "two-clients-failing-instructions-overlapping-replies"
        return sc
    if rng.random() < 0.15:
        # World C: opcode-level pre-emption of concurrent add_transaction calls
        return {"world": "C", "calls": [[rng.randint(1, 5), rng.random() < 0.35] for _ in range(rng.choice([2, 2, 3]))], "tape": [rng.randrange(1000) for _ in range(300)]}
    n_markets = rng.choice([1, 2, 3])
    knobs = {"p_removal": 0.1, "p_suspend": rng.choice([0.1, 0.4]), "p_inplay": 0.3, "n_updates": (6, rng.choice([12, 25])), "spacing": rng.choice(["slow", "slow", "mixed", "normal"]), "p_trade": 0.5}
    mix = {"p_act": rng.choice([0.5, 0.8]), "p_fok": 0.05, "p_sp": 0.05, "w_cancel": 3, "w_update": 2, "w_replace": 3, "w_txn": 1, "p_force": rng.choice([0.0, 0.2]), "max_size": 5.0, "where": ("through", "at", "behind", "behind")}
    two = rng.random() < 0.4
    clients = [{"bpe": True, "limit": rng.choice([None, 0, 1, 3, 20, 5000])}] + ([{"bpe": True, "limit": rng.choice([None, 0, 1, 3, 20])}] if two else [])
    sc = common.base_scenario(rng, n_markets=0, market_knobs=knobs, strategies=0, mix=mix, clients=clients)
    base = common.marketgen.T0_MS + rng.choice([0, 3_540_000, 13 * HOUR + 3_500_000, 13 * HOUR + 3_590_000])  # close to hour / day boundaries
    t = base
    for k in range(n_markets):
        m = common.marketgen.gen_market(rng, k, knobs, t0=t)
        sc["markets"].append(m)
        t = m["updates"][0]["pt"] + rng.choice([HOUR, 24 * HOUR, -23 * HOUR, 10_000, 25 * HOUR, -HOUR])
    n_strat = 2 if two else rng.choice([1, 2])
    for s in range(n_strat):
        st = {"name": "S%d" % s, "markets": list(range(n_markets)), "client": (s % 2) if two else 0, "max_live_trade_count": 20, "max_order_exposure": 500, "max_selection_exposure": 5000}
        sc["strategies"].append(st)
        common.agentgen.add_script(rng, sc, st, mix)
    common._tz(sc)
    return sc


def execute(scenario):
    if scenario.get("live_c18"):
        from .. import live
        from ..oracles.transactions import LiveTransactionMonitor, LiveClientCounts

        return live.run_scenario(scenario, [LiveTransactionMonitor, LiveClientCounts], owner=ID)
    if scenario.get("world") == "C":
        from .. import opcode

        return opcode.run_scenario(scenario)
    return backtest.run_scenario(scenario, MONITORS, owner=ID)


def sample_view(scenario):  # noqa: F811
    if scenario.get("live_c18"):
        from . import C11

        return C11.sample_view(scenario)
    if scenario.get("world") == "C":
        return scenario
    return common.sample_view(scenario)


def shrink(scenario, test, deadline):  # noqa: F811
    if scenario.get("live_c18"):
        from . import C11

        return C11.shrink_live(scenario, test, deadline)
    if scenario.get("world") == "C":
        tape = list(scenario["tape"])
        while len(tape) > 2 and test(dict(scenario, tape=tape[: len(tape) // 2])):
            tape = tape[: len(tape) // 2]
        return dict(scenario, tape=tape)
    return common.shrink(scenario, test, deadline)
