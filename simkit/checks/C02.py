"""C02 - Refused requests change nothing; accepted requests are sent exactly once."""
from .. import backtest
from ..oracles.ledger import LedgerMonitor
from ..oracles.requests import RequestMonitor
from . import common, lifecycle_common

ID = "C02"
LEVEL = "exploration"
TECHNIQUE = "deterministic simulation; deep state snapshot around every place/cancel/update/replace request (refused, rejected, forced, accepted) and multiset comparison of accepted requests with the order packages captured at the execution seam, over whole simulated backtests"
BUDGET = {"quick": {"runs": 8000, "wall": 45}, "thorough": {"runs": 400000, "wall": 900}}
RULE = (
    "one evaluation = one seeded backtest with request sequences issued directly on the market or batched in transactions (explicit execute() "
    "calls, mixed market versions, bulk transactions of up to 3x the per-call limits 200/60/60/60), requests against orders in every status, "
    "default controls driven to violate (invalid price/size, suspended market, tight limits, transaction limit) plus scripted trading- and "
    "client-level controls refusing chosen (order, kind) pairs, with and without force; non-trivial = a request on an already placed order was "
    "refused or a transaction produced two or more packages; distinct = distinct scenario digests"
)
ASSUMPTIONS = [
    "80% World A (SimulatedClient), 20% World B (BetfairClient against the exchange double, incl. the opt-in ExecutionValidation control with the order stream reported down); 8% World B sessions through a BetdaqClient (method-level API stub, per-call limits 10/10/50, polling diffs)",
    "a request on an order that was never sent (status VIOLATION) may re-mark it as a violation (the permitted effect for never-sent orders)",
    "creating an empty runner context for a runner is not a change of the runner accounting",
]
from . import C11 as _c11

COMPONENTS = dict(common.COMPONENTS_A, world_B=_c11.COMPONENTS)
MONITORS = [LedgerMonitor, RequestMonitor]


def generate(rng, i, tier):
    if rng.random() < 0.08:
        # World B with a Betdaq client (BetdaqOrder / BetdaqOrderPackage / BetdaqExecution, API stubbed at method level)
        from .. import livegen

        return livegen.gen_live_betdaq(rng)
    if rng.random() < 0.2:
        # World B: the same request discipline against the live Betfair execution seam (real thread-pool hand-over
        # replaced by the scheduler), scripted controls and forced requests included
        from .. import livegen

        sc = livegen.gen_live(rng, "C12" if rng.random() < 0.5 else "C11")
        sc.pop("crash_at", None)
        sc.pop("foreign_bets", None)
        sc["controls"] = []
        if rng.random() < 0.6:
            sc["controls"].append({"level": "trading", "mod": rng.choice([2, 3]), "rem": rng.randrange(2), "kinds": rng.sample(["PLACE", "CANCEL", "UPDATE", "REPLACE"], rng.randint(1, 3))})
        if rng.random() < 0.3:
            sc["controls"].append({"level": "client", "client": 0, "mod": 2, "rem": rng.randrange(2), "kinds": rng.sample(["PLACE", "CANCEL", "UPDATE", "REPLACE"], 2)})
        if rng.random() < 0.3:
            sc["cfg"]["execution_validation"] = True
            sc["cfg"]["order_stream_down"] = rng.random() < 0.5
        pf = rng.choice([0.0, 0.3])
        for m in sc["markets"]:
            for u in m["updates"]:
                for key in ("acts", "oacts"):
                    for acts in (u.get(key) or {}).values():
                        for a in acts:
                            for x in a["acts"] if a["op"] == "txn" else [a]:
                                if rng.random() < pf:
                                    x["force"] = True
                            if a["op"] == "txn" and rng.random() < 0.3:
                                a["propagate"] = True
        return sc
    sc = lifecycle_common.scenario(rng, ID)
    st = sc["strategies"]
    # controls
    sc["controls"] = []
    if rng.random() < 0.6:
        sc["controls"].append({"level": "trading", "mod": rng.choice([2, 3, 5]), "rem": rng.randrange(2), "kinds": rng.sample(["PLACE", "CANCEL", "UPDATE", "REPLACE"], rng.randint(1, 3))})
    if rng.random() < 0.4:
        sc["controls"].append({"level": "client", "client": 0, "mod": rng.choice([2, 3]), "rem": rng.randrange(2), "kinds": rng.sample(["PLACE", "CANCEL", "UPDATE", "REPLACE"], rng.randint(1, 2))})
    if rng.random() < 0.3:
        sc["clients"][0]["limit"] = rng.choice([0, 1, 3, 10])
    tight = rng.random() < 0.3
    for s in st:
        if tight:
            s["max_order_exposure"] = rng.choice([1.0, 3.0])
            s["max_selection_exposure"] = rng.choice([2.0, 6.0])
    # force / invalid orders / place_again sprinkled over the existing actions
    p_force = rng.choice([0.0, 0.2, 0.5])
    for m in sc["markets"]:
        for u in m["updates"]:
            for key in ("acts", "oacts"):
                for acts in (u.get(key) or {}).values():
                    extra = []
                    for a in acts:
                        targets = a["acts"] if a["op"] == "txn" else [a]
                        for x in targets:
                            if rng.random() < p_force:
                                x["force"] = True
                            if x["op"] == "place" and x.get("type", "LIMIT") == "LIMIT" and rng.random() < 0.08:
                                x["size"] = rng.choice([0.0, x["size"] + 0.001, -1.0])
                                x.pop("force", None)  # invalid orders forced past validation are outside the domain
                            if x["op"] == "place" and rng.random() < 0.05:
                                x["mv"] = rng.choice(["cur", -1, 1])
                        if rng.random() < 0.06:
                            extra.append({"op": "place_again", "order": rng.choice([-1, -2, {"live": 0}])})
                    acts.extend(extra)
    # bulk transactions (per-call chunk limits)
    if rng.random() < 0.12:
        m = sc["markets"][0]
        s0 = st[0]
        s0.update(max_order_exposure=None, max_selection_exposure=None, max_market_exposure=None, max_live_trade_count=100000)
        sc["clients"][0]["limit"] = None
        sc["controls"] = [c for c in sc["controls"] if c["level"] != "client"]
        ups = [u for u in m["updates"] if u["st"] == "OPEN"]
        if len(ups) >= 3:
            u0 = ups[0]
            sel = m["runners"][0]
            n = rng.choice([61, 120, 199, 200, 201, 230, 401])
            proto = {"op": "place", "sel": sel, "side": "BACK", "type": "LIMIT", "price": 900.0 if not m.get("line") else m["line"][1], "size": 2.0, "persistence": "PERSIST"}
            if m.get("line"):
                proto["line"] = m["line"]
            a = {"op": "bulk_place", "n": n, "proto": proto}
            if rng.random() < 0.5:
                a["mvs"] = rng.choice([[None, "cur"], ["cur", -1], [None, "cur", 1]])
            if rng.random() < 0.3:
                a["exec_after"] = [rng.randrange(n)]
            u0.setdefault("acts", {}).setdefault(s0["name"], []).append(a)
            kind = rng.choice(["cancel", "update", "replace"])
            b = {"op": "bulk", "kind": kind, "n": rng.choice([59, 60, 61, 130, 400]), "price": 800.0}
            if kind == "replace" and rng.random() < 0.5:
                b["mvs"] = [None, "cur"]
            if rng.random() < 0.4:
                b["lead"] = [dict(proto)]
                b["lead_exec"] = rng.random() < 0.5
            ups[-1].setdefault("acts", {}).setdefault(s0["name"], []).append(b)
    return sc


def execute(scenario):
    if scenario.get("world") == "B":
        from .. import live

        return live.run_scenario(scenario, [RequestMonitor], owner=ID)
    return backtest.run_scenario(scenario, MONITORS, owner=ID)


def sample_view(scenario):  # noqa: F811
    if scenario.get("world") == "B":
        from . import C11

        return C11.sample_view(scenario)
    return common.sample_view(scenario)


def shrink(scenario, test, deadline):  # noqa: F811
    if scenario.get("world") == "B":
        from . import C11

        return C11.shrink_live(scenario, test, deadline)
    return common.shrink(scenario, test, deadline)
