"""C20 - Market closure is processed once, with results, for the right strategies."""
from .. import backtest
from ..oracles.ledger import LedgerMonitor
from ..oracles.closure import ClosureMonitor
from . import common

ID = "C20"
LEVEL = "exploration"
TECHNIQUE = "deterministic simulation; for every closing update of generated histories (repeated closes, close -> re-open -> close, markets first seen closed) the results copied to orders, the closed-market callbacks per strategy, the cleared events at the logging control, the market flags and the release of runner contexts / middleware state are compared with the scenario's own subscription map and closing book (World A; live retention is covered in World B where built)"
BUDGET = {"quick": {"runs": 10000, "wall": 45}, "thorough": {"runs": 500000, "wall": 900}}
RULE = (
    "one evaluation = one seeded backtest over 1-3 markets with one or more CLOSED updates (repeats, data after close, first update closed), 1-3 strategies with "
    "different market subscriptions, 0-2 extra middlewares, 1-2 clients; or one live session over 2-4 markets closing 10 s .. 2 h apart with an empty-filter strategy; non-trivial = a CLOSED update was repeated or followed by more data, or strategies had "
    "different subscriptions; distinct = distinct scenario digests"
)
ASSUMPTIONS = [
    "'once' is per closing update received (streams do repeat CLOSED)",
    "in backtest mode a closing update for a market of which no earlier update was processed has no market object to close and is ignored by design; nothing is demanded for it",
    "70% World A backtests, 30% World B live sessions (real Flumine.run() loop under the simulated clock) for the closure callbacks of empty-filter strategies and the retention rule (removal only after more than 3600 simulated seconds closed, at the next close event)",
    "live sessions: the closure worker (poll_market_closure) is a stub - after every processed close the harness marks orders_cleared/market_cleared on the market, so that the reset of these flags by data arriving again (incl. a repeated CLOSED update) is observable; the hour of retention is counted from the latest closing update of a market (own journal)",
    "about a third of the live sessions run a raw-data recorder strategy (DataStream, dict updates, closure from the marketDefinition of the raw datum)",
]
COMPONENTS = common.COMPONENTS_A
MONITORS = [LedgerMonitor, ClosureMonitor]


def generate(rng, i, tier):
    if rng.random() < 0.3:
        from .. import livegen

        return livegen.gen_live_closure(rng)
    n_markets = rng.choice([1, 2, 3])
    knobs = {
        "p_close": 1.0,
        "p_repeat_close": rng.choice([0.0, 0.5]),
        "p_reopen_after_close": rng.choice([0.0, 0.5]),
        "first_closed": rng.choice([0.0, 0.15]),
        "dead_heat": rng.choice([0.0, 0.4]),
        "p_removal": 0.2,
        "p_inplay": 0.5,
        "n_updates": (4, rng.choice([8, 16, 30])),
        "p_trade": 0.6,
        "p_lines": 0.12,
    }
    mix = {"p_act": rng.choice([0.0, 0.4, 0.7]), "p_fok": 0.05, "p_sp": 0.1, "max_size": 5.0, "where": ("through", "at", "behind", "behind")}
    two = rng.random() < 0.3
    clients = [{"bpe": True}] + ([{"bpe": True, "commission": 0.02}] if two else [])
    grouped = n_markets > 1 and rng.random() < 0.3
    sc = common.base_scenario(rng, n_markets=n_markets, market_knobs=knobs, strategies=0, mix=mix, clients=clients, same_event=grouped, t0=common.marketgen.T0_MS + rng.randint(0, 100000) if grouped else None)
    n_strat = rng.choice([1, 2, 3])
    for s in range(n_strat):
        subset = sorted(rng.sample(range(n_markets), rng.randint(1, n_markets))) if s else list(range(n_markets))
        st = {"name": "S%d" % s, "markets": subset, "client": s % len(clients), "max_live_trade_count": 20, "event_processing": grouped}
        sc["strategies"].append(st)
        common.agentgen.add_script(rng, sc, st, mix)
    sc["middlewares"] = [{"name": "mw%d" % k} for k in range(rng.choice([0, 0, 1, 2]))]
    if rng.random() < 0.06:
        # an order for a runner that is not part of the market (a strategy slip), guarded by a market version the market
        # never has: it lapses at placement, stays in the blotter, and must not disturb the closure of the other orders
        m = sc["markets"][rng.randrange(n_markets)]
        for u in m["updates"]:
            if u["st"] == "OPEN":
                u.setdefault("acts", {}).setdefault("S0", []).insert(0, {"op": "place", "sel": 999, "side": "BACK", "type": "LIMIT", "price": 3.0, "size": 2.0, "persistence": "LAPSE", "mv": -1})
                sc["ghost_order"] = True
                break
    return sc


def execute(scenario):
    if scenario.get("world") == "B":
        from .. import live
        from ..oracles.closure import LiveClosureMonitor

        return live.run_scenario(scenario, [LiveClosureMonitor], owner=ID)
    return backtest.run_scenario(scenario, MONITORS, owner=ID)


def sample_view(scenario):  # noqa: F811
    if scenario.get("world") == "B":
        from . import C11

        return C11.sample_view(scenario)
    return common.sample_view(scenario)


def shrink(scenario, test, deadline):  # noqa: F811
    if scenario.get("world") == "B":
        from . import C11

        return C11.shrink_live(scenario, test, deadline)
    return common.shrink(scenario, test, deadline)
