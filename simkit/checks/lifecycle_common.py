"""Scenario family shared by C02 / C03 / C10 / C15: request-heavy scripts, requests that are illegal at
that instant, market events inside the latency window of in-flight requests."""
from . import common


def scenario(rng, flavour):
    knobs = {
        "p_removal": rng.choice([0.0, 0.3]),
        "p_suspend": rng.choice([0.1, 0.4]),
        "p_inplay": rng.choice([0.2, 0.7]),
        "version_on_suspend": rng.choice([0.5, 1.0]),
        "n_updates": (8, rng.choice([16, 30, 50])),
        "spacing": rng.choice(["fast", "normal", "mixed"]),
        "p_trade": rng.choice([0.5, 0.8]),
        "n_runners": (2, 4),
        "p_lines": 0.15 if flavour == "C15" else 0.0,
    }
    mix = {
        "p_act": rng.choice([0.5, 0.8]),
        "p_fok": 0.1,
        "p_sp": rng.choice([0.0, 0.15]),
        "w_place": 4,
        "w_cancel": 3,
        "w_update": 2,
        "w_replace": 3,
        "w_txn": 1,
        "p_oacts": 0.2,
        "p_live_ref": rng.choice([0.3, 0.7]),
        "p_mv": 0.1,
        "p_ctx": rng.choice([0.0, 0.15]),
        "p_same_trade": rng.choice([0.0, 0.3]),
        "max_size": 6.0,
        "where": ("through", "at", "behind", "behind"),
        "prs": (0.0,),
        "rs": (0.0,),
        "p_txn_propagate": 0.3 if flavour == "C02" else 0.0,
    }
    if flavour == "C02":
        mix["w_txn"] = 2.5
    strat_kw = {"max_live_trade_count": rng.choice([1, 3, 30]), "max_order_exposure": 500, "max_selection_exposure": 5000}
    if rng.random() < 0.4:
        # the market-level limit is optional (None by default): with it the controls walk more of the blotter
        strat_kw["max_market_exposure"] = rng.choice([20000, 20000, 15.0])
    n_strat = rng.choice([1, 1, 2])
    clients = [{"bpe": True}]
    if flavour == "C10":
        mix["prs"] = rng.choice([(0.0,), (0.0, 0.5, 5.0), (1.0, 30.0)])
        mix["rs"] = rng.choice([(0.0,), (0.0, 0.5, 5.0), (1.0, 30.0)])
        mix["p_same_trade"] = rng.choice([0.0, 0.4])
        # placing a further order on a trade that has COMPLETED is outside C10's quantifier (flumine never completes such a
        # trade again outside a response handler, before and after the F18 repair alike); the agent can do it ("reuse_done")
        # and tools/parity_reuse.sh compares the repaired tree with the original trade.py on exactly these histories
        mix["p_reuse_done"] = float(__import__("os").environ.get("VERIF_C10_REUSE_DONE", "0") or 0)
        mix["p_ctx"] = rng.choice([0.0, 0.3])
        strat_kw.update(max_trade_count=rng.choice([1, 2, 5, 1e6]), max_live_trade_count=rng.choice([1, 2, 3]), multi_order_trades=rng.random() < 0.5)
    if flavour == "C15":
        n_strat = rng.choice([2, 3])
        if rng.random() < 0.5:
            clients = [{"bpe": True}, {"bpe": True, "commission": 0.02}]
    sc = common.base_scenario(rng, n_markets=rng.choice([1, 1, 2]), market_knobs=knobs, strategies=0, mix=mix, clients=clients)
    sc["cfg"] = common.latencies(rng)
    for s in range(n_strat):
        st = {"name": "S%d" % s, "markets": list(range(len(sc["markets"]))), "client": s % len(clients)}
        st.update(strat_kw)
        sc["strategies"].append(st)
        common.agentgen.add_script(rng, sc, st, mix)
    if flavour == "C10" and rng.random() < 0.4:
        # multi-order trades whose legs are created up front and placed at different times
        for m in sc["markets"]:
            for u in m["updates"]:
                for acts in (u.get("acts") or {}).values():
                    extra = []
                    for a in acts:
                        if a["op"] == "place" and rng.random() < 0.25:
                            leg = dict(a)
                            leg["op"] = "create"
                            leg["trade"] = -1
                            leg["side"] = "LAY" if a["side"] == "BACK" else "BACK"
                            extra.append(leg)
                        elif rng.random() < 0.2:
                            extra.append({"op": "place_pending", "order": -1})
                    acts.extend(extra)
    if flavour == "C10" and rng.random() < 0.35:
        # an order that was refused (marked a violation, never placed) may be submitted again later - the same object
        for m in sc["markets"]:
            for u in m["updates"]:
                for acts in (u.get("acts") or {}).values():
                    if acts and rng.random() < 0.3:
                        acts.append({"op": "place_again", "order": rng.choice([-1, -2, -3]), "live_trade_only": True})
    return sc
