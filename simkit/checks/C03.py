"""C03 - Order lifecycle: one operation in flight, legal transitions, finality."""
from .. import backtest
from ..oracles.ledger import LedgerMonitor
from ..oracles.lifecycle import LifecycleMonitor
from ..oracles.requests import RejectionMonitor
from . import common, lifecycle_common

ID = "C03"
LEVEL = "exploration"
TECHNIQUE = "deterministic simulation; every status change recorded at BaseOrder._update_status and checked against the documented lifecycle table, finality after completion, request guards and the number of outstanding packages per order, over whole simulated backtests"
BUDGET = {"quick": {"runs": 10000, "wall": 45}, "thorough": {"runs": 500000, "wall": 900}}
RULE = "one evaluation = one seeded backtest: requests (incl. illegal ones) issued at random instants relative to fills, suspension lapses, removals, in-play turns and closure with latencies drawn so that responses land before/after the market event; non-trivial = an illegal request was attempted or a response was applied after the order had completed for another reason; distinct = distinct scenario digests"
ASSUMPTIONS = [
    "4% of the evaluations (index % 25 == 7) are a second directed live family (asynchronous place whose every attempt fails in transport after the exchange took it, the order stream acknowledging the bets during the back-off and the strategy sending a cancel / update / replace meanwhile): the exhausted-retries recovery of the PLACE package must leave an order alone whose own modification is outstanding (judged only while reset_orders is on the stack)",
    "5% of the evaluations are a directed live family (two-instruction cancel with one report missing, then two requests in flight at once); an in-flight order may only leave its in-flight status on a thread that applies the reply of a package containing it, or through the order stream",
    "70% World A backtests (simulated exchange), 22% World B live Betfair sessions against the exchange double (legitimate replies and injected API faults, no restarts), 8% World B sessions with BetdaqOrder through a method-level Betdaq API stub (a successful Betdaq update stays UPDATING until the next poll, as the code documents)",
    "observation points: every status change, every request, every package and its execution, end of every update",
]
from . import C11 as _c11

COMPONENTS = dict(common.COMPONENTS_A, world_B=_c11.COMPONENTS)
MONITORS = [LedgerMonitor, LifecycleMonitor, RejectionMonitor]


def generate(rng, i, tier):
    if i % 25 == 7:
        # second directed family (round 21); chosen by the evaluation index so that the scenarios of all other evaluations
        # are the ones generated before the family existed
        from .. import livegen

        return livegen.gen_c03_async_retry_overlap(rng)
    if rng.random() < 0.08:
        # World B with a Betdaq client (BetdaqOrder / BetdaqOrderPackage / BetdaqExecution, API stubbed at method level)
        from .. import livegen

        return livegen.gen_live_betdaq(rng)
    if rng.random() < 0.05:
        from .. import livegen

        return livegen.gen_c03_overlap(rng)
    if rng.random() < 0.25:
        from .. import livegen

        sc = livegen.gen_live(rng, "C12" if rng.random() < 0.5 else "C11")
        sc.pop("crash_at", None)
        sc.pop("foreign_bets", None)
        return sc
    return lifecycle_common.scenario(rng, ID)


def execute(scenario):
    if scenario.get("world") == "B":
        from .. import live

        return live.run_scenario(scenario, [LifecycleMonitor, RejectionMonitor], owner=ID)
    return backtest.run_scenario(scenario, MONITORS, owner=ID)


def sample_view(scenario):  # noqa: F811
    if scenario.get("world") == "B":
        from . import C11

        return C11.sample_view(scenario)
    return common.sample_view(scenario)


def shrink(scenario, test, deadline):  # noqa: F811
    if scenario.get("world") == "B":
        from . import C11

        return C11.shrink_live(scenario, test, deadline)
    return common.shrink(scenario, test, deadline)
