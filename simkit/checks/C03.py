"""C03 - Order lifecycle: one operation in flight, legal transitions, finality."""
from .. import backtest
from ..oracles.ledger import LedgerMonitor
from ..oracles.lifecycle import LifecycleMonitor
from . import common, lifecycle_common
from .common import sample_view, shrink  # noqa

ID = "C03"
LEVEL = "exploration"
TECHNIQUE = "deterministic simulation; every status change recorded at BaseOrder._update_status and checked against the documented lifecycle table, finality after completion, request guards and the number of outstanding packages per order, over whole simulated backtests"
BUDGET = {"quick": {"runs": 10000, "wall": 45}, "thorough": {"runs": 500000, "wall": 900}}
RULE = "one evaluation = one seeded backtest: requests (incl. illegal ones) issued at random instants relative to fills, suspension lapses, removals, in-play turns and closure with latencies drawn so that responses land before/after the market event; non-trivial = an illegal request was attempted or a response was applied after the order had completed for another reason; distinct = distinct scenario digests"
ASSUMPTIONS = [
    "World A (simulated exchange) only in this version of the check; the live-exchange double facet is covered by the World B checks (C11/C12) where noted in DESIGN.md",
    "observation points: every status change, every request, every package and its execution, end of every update",
]
COMPONENTS = common.COMPONENTS_A
MONITORS = [LedgerMonitor, LifecycleMonitor]


def generate(rng, i, tier):
    return lifecycle_common.scenario(rng, ID)


def execute(scenario):
    return backtest.run_scenario(scenario, MONITORS, owner=ID)
